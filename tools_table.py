#!/usr/bin/env python3
"""Prints the DESIGN.md §0.3 table (registered checks, quick tier) from checks.py and evidence/*.json."""
import json, os, sys
ROOT = os.path.dirname(os.path.abspath(__file__))
sys.path.insert(0, ROOT)
from checks import CHECKS
print("| id | harnesses | runs | paths completed (quick) | witness paths replayed natively | time |")
print("|---|---|---|---|---|---|")
for pid in sorted(CHECKS):
    hs = []
    for r in CHECKS[pid]["runs"]:
        for h in r["harnesses"]:
            n = h.split(".")[-1].replace("ZZ", "")
            if n not in hs:
                hs.append(n)
    try:
        e = json.load(open(os.path.join(ROOT, "evidence", pid + ".json")))
        print("| %s | %s | %d | %d | %d | %d s |" % (pid, ", ".join(hs), len(CHECKS[pid]["runs"]), e["coverage"]["states"], e["coverage"]["traces_validated_against_impl"], round(e["wall_s"])))
    except Exception as ex:
        print("| %s | %s | %d | ? | ? | ? |" % (pid, ", ".join(hs), len(CHECKS[pid]["runs"])))
