#!/bin/bash
# tools_eval.sh <name>...   evaluates seeded changes from /tmp/wt/out/<name> (demo dir from meta.json), appends to /tmp/wt/logs/eval.log
mkdir -p /tmp/wt/logs
for N in "$@"; do
  M=/tmp/wt/out/$N
  PID=$(jq -r .property $M/meta.json)
  DD=$(jq -r .demo_dir $M/meta.json)
  /verif/tools_seeded.sh $M $PID $DD 2>&1 | tee -a /tmp/wt/logs/eval.log
done
