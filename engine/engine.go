package main

// Engine: program loading, workers, work list, pure-function summaries.

import (
	"fmt"
	"go/token"
	"go/types"
	"os"
	"sort"
	"strings"
	"sync"
	"time"

	"golang.org/x/tools/go/packages"
	"golang.org/x/tools/go/ssa"
	"golang.org/x/tools/go/ssa/ssautil"
)

const xjsPath = "github.com/xjslang/xjs"

type Engine struct {
	prog        *ssa.Program
	symPkg      *ssa.Package
	errPtrType  types.Type
	fnInfos     sync.Map
	maxSteps    int
	maxDepth    int
	crossCheck  bool
	reverseMaps bool
	auxSolvers  []string
	maxViol     int
	maxWitness  int
	noSummaries bool
	params      map[string]int
	redirects   map[string]*ssa.Function

	mu          sync.Mutex
	work        []*workItem
	active      int
	cond        *sync.Cond
	stubs       map[string]bool
	funcsSeen   map[string]bool
	violations  []Violation
	violCount   map[string]int
	witnesses   []Witness
	witCount    map[string]int
	unsupported map[string]int
	unknowns    []string
	ends        map[string]int
	pathsDone   map[string]int
	coverCount  map[string]int
	stop        bool
	deadline    time.Time
	timedOut    bool
}

type workItem struct {
	harness string
	prefix  []bool
	model   Model
}

type Worker struct {
	eng        *Engine
	st         *Store
	solver     *Solver
	aux        []*Solver
	consts     map[*ssa.Const]Value
	id         int
	qcache     map[string]qres
	vcache     map[int32][]int32
	nCacheHits int

	nForks, nForkQueries, nAssumeQueries         int
	nAssertQueries, nAssertUnsat, nAssertTrivial int
	nCross, nCrossDisagree, nCrossNoAnswer       int
	steps                                        int64
	paths                                        int
	funcs                                        map[*ssa.Function]bool
}

func loadProgram(repo string, overlay map[string][]byte, patterns []string) (*ssa.Program, []*ssa.Package, error) {
	cfg := &packages.Config{
		Mode:    packages.LoadAllSyntax,
		Dir:     repo,
		Overlay: overlay,
		Env:     append(os.Environ(), "GOFLAGS=-mod=mod", "GOPROXY=off", "GOSUMDB=off", "GOTOOLCHAIN=local"),
	}
	pkgs, err := packages.Load(cfg, patterns...)
	if err != nil {
		return nil, nil, err
	}
	nerr := 0
	packages.Visit(pkgs, nil, func(p *packages.Package) {
		for _, e := range p.Errors {
			fmt.Fprintln(os.Stderr, "load error:", e)
			nerr++
		}
	})
	if nerr > 0 {
		return nil, nil, fmt.Errorf("%d package load errors", nerr)
	}
	prog, spkgs := ssautil.AllPackages(pkgs, ssa.InstantiateGenerics)
	for _, sp := range spkgs {
		if sp != nil && strings.HasPrefix(sp.Pkg.Path(), xjsPath) {
			sp.Build()
		}
	}
	return prog, spkgs, nil
}

func (e *Engine) runInit(pkg *ssa.Package) bool {
	return strings.HasPrefix(pkg.Pkg.Path(), xjsPath)
}

func (e *Engine) noteStub(s string) {
	e.mu.Lock()
	e.stubs[s] = true
	e.mu.Unlock()
}

func (w *Worker) push(it *workItem) {
	e := w.eng
	e.mu.Lock()
	e.work = append(e.work, it)
	e.mu.Unlock()
	e.cond.Signal()
}

func (w *Worker) noteUnknown(p *Path, extra *Term) {
	e := w.eng
	e.mu.Lock()
	if len(e.unknowns) < 20 {
		e.unknowns = append(e.unknowns, fmt.Sprintf("%s: solver unknown (%s) at %s", p.harness, w.solver.lastErr, where(p)))
	} else {
		e.unknowns = append(e.unknowns[:20], "...")
	}
	e.mu.Unlock()
}

func where(p *Path) string {
	if p.curInstr == nil {
		return ""
	}
	fn := p.curInstr.Parent()
	pos := fn.Prog.Fset.Position(p.curInstr.Pos())
	if !pos.IsValid() {
		return fn.String()
	}
	return fmt.Sprintf("%s (%s:%d)", fn.String(), shortFile(pos.Filename), pos.Line)
}

func shortFile(f string) string {
	if i := strings.LastIndex(f, "/"); i >= 0 {
		if j := strings.LastIndex(f[:i], "/"); j >= 0 {
			return f[j+1:]
		}
	}
	return f
}

func (w *Worker) recordViolation(p *Path, label, kind, msg string, m Model) {
	e := w.eng
	v := Violation{
		Harness:   p.harness,
		Label:     label,
		Kind:      kind,
		Msg:       msg,
		Model:     modelForOutput(p.vars, m),
		Obs:       p.evalObs(m),
		Decisions: decString(p.decs),
		Where:     where(p),
	}
	e.mu.Lock()
	key := p.harness + "/" + label
	e.violCount[key]++
	if e.violCount[key] <= e.maxViol {
		e.violations = append(e.violations, v)
	}
	e.mu.Unlock()
}

func (w *Worker) crossCheck(p *Path, neg *Term, res Result) {
	cs := append(append([]*Term{}, p.pc...), neg)
	for _, s := range w.aux {
		w.nCross++
		if s.Timeouts >= 5 {
			// this back end keeps running into its limit on this encoding: stop
			// asking it (counted as cross-checks without answer)
			w.nCrossNoAnswer++
			continue
		}
		r, _ := s.Check(cs, nil)
		if r == RUnknown {
			// the cross-checking solver gave no answer in its time limit: the
			// main verdict stands, the gap is reported in the evidence
			w.nCrossNoAnswer++
			continue
		}
		if r != res {
			w.nCrossDisagree++
			e := w.eng
			e.mu.Lock()
			e.unknowns = append(e.unknowns, fmt.Sprintf("%s: solver disagreement %s=%s vs %s=%s at %s", p.harness, w.solver.name, res, s.name, r, where(p)))
			e.mu.Unlock()
		}
	}
}

// runItem executes one path.
func (w *Worker) runItem(it *workItem, fn *ssa.Function) {
	p := &Path{
		w: w, harness: it.harness, prefix: it.prefix, model: it.model,
		memo: map[int32]uint64{}, bind: map[int32]*Term{}, smemo: map[int32]*Term{},
		varCount: map[string]int{}, globals: map[*ssa.Global]*Value{},
		frozenCells: map[*Value]string{}, frozenMaps: map[*Map]string{},
	}
	if p.model == nil {
		p.model = Model{}
	}
	kind := "done"
	msg := ""
	func() {
		defer func() {
			if r := recover(); r != nil {
				switch r := r.(type) {
				case pathEnd:
					kind, msg = r.kind, r.msg
				case unsupported:
					kind, msg = "unsupported", r.msg+" at "+where(p)
				default:
					panic(r)
				}
			}
		}()
		// package initialisers of the code under test, then the harness
		for _, ip := range w.eng.initOrder(fn.Pkg) {
			p.callFunction(nil, ip.Func("init"), nil, nil, nil)
		}
		p.callFunction(nil, fn, nil, nil, nil)
	}()
	if kind == "budget" {
		// unwinding assertion failed: a candidate non-termination, confirmed (or
		// not) by the native replay under a timeout
		w.recordViolation(p, "terminates-within-the-instruction-budget", "budget", msg, p.model)
	}
	w.steps += int64(p.steps)
	w.paths++
	e := w.eng
	e.mu.Lock()
	e.ends[it.harness+"/"+kind]++
	if kind == "unsupported" || kind == "budget" {
		e.unsupported[it.harness+": "+kind+": "+msg]++
	}
	if kind == "cut" {
		e.unsupported[it.harness+": cut: "+msg]++
	}
	if kind == "done" {
		e.pathsDone[it.harness]++
		for _, c := range p.covers {
			e.coverCount[it.harness+"/"+c]++
		}
		e.witCount[it.harness]++
		n := e.witCount[it.harness]
		// reservoir-free deterministic sampling: keep the first maxWitness/2 and
		// then every k-th
		if n <= e.maxWitness {
			e.witnesses = append(e.witnesses, Witness{
				Harness: it.harness, Model: modelForOutput(p.vars, p.model),
				Obs: p.evalObs(p.model), Covers: p.covers, Asserts: p.nAsserts,
			})
		}
	}
	e.mu.Unlock()
}

// initOrder lists the xjs packages whose init functions must run (the
// harness package's own init calls its dependencies' inits; inits of
// packages outside xjs are skipped in callFunction).
func (e *Engine) initOrder(pkg *ssa.Package) []*ssa.Package {
	return []*ssa.Package{pkg}
}

func (e *Engine) worker(id int, harnesses map[string]*ssa.Function, wg *sync.WaitGroup) {
	defer wg.Done()
	w := &Worker{eng: e, st: NewStore(), consts: map[*ssa.Const]Value{}, id: id, qcache: map[string]qres{}, vcache: map[int32][]int32{}, funcs: map[*ssa.Function]bool{}}
	var err error
	w.solver, err = NewSolver("z3")
	if err != nil {
		panic(err)
	}
	defer w.solver.Close()
	for _, n := range e.auxSolvers {
		s, err := NewSolver(n)
		if err != nil {
			panic(err)
		}
		s.SetLimit(20 * time.Second)
		w.aux = append(w.aux, s)
		defer s.Close()
	}
	for {
		e.mu.Lock()
		for len(e.work) == 0 && e.active > 0 && !e.stop {
			e.cond.Wait()
		}
		if e.stop || (len(e.work) == 0 && e.active == 0) {
			e.mu.Unlock()
			e.cond.Broadcast()
			break
		}
		it := e.work[len(e.work)-1]
		e.work = e.work[:len(e.work)-1]
		e.active++
		e.mu.Unlock()

		w.runItem(it, harnesses[it.harness])

		if w.solver.nDef > 200000 {
			w.solver.Restart()
			for _, s := range w.aux {
				s.Restart()
			}
		}
		e.mu.Lock()
		e.active--
		if !e.deadline.IsZero() && time.Now().After(e.deadline) {
			e.stop = true
			e.timedOut = true
		}
		e.mu.Unlock()
		e.cond.Broadcast()
	}
	e.mu.Lock()
	agg.add(w)
	for f := range w.funcs {
		if strings.HasPrefix(f.String(), xjsPath) || strings.Contains(f.String(), xjsPath) {
			if !strings.Contains(f.String(), "/zzverif/") {
				e.funcsSeen[f.String()] = true
			}
		}
	}
	e.mu.Unlock()
}

func typesPointer(t *ssa.Type) types.Type { return types.NewPointer(t.Type()) }

type aggStats struct {
	Forks, ForkQueries, AssumeQueries                                  int
	AssertQueries, AssertUnsat, AssertTrivial                          int
	Cross, CrossDisagree, CacheHits, CrossNoAnswer                     int
	Steps                                                              int64
	Paths                                                              int
	SolverQueries, SolverSat, SolverUnsat, SolverUnknown, SolverErrors int
	SolverTime                                                         time.Duration
	AuxQueries                                                         map[string]int
	AuxTime                                                            map[string]time.Duration
}

var agg = &aggStats{AuxQueries: map[string]int{}, AuxTime: map[string]time.Duration{}}

func (a *aggStats) add(w *Worker) {
	a.Forks += w.nForks
	a.ForkQueries += w.nForkQueries
	a.AssumeQueries += w.nAssumeQueries
	a.AssertQueries += w.nAssertQueries
	a.AssertUnsat += w.nAssertUnsat
	a.AssertTrivial += w.nAssertTrivial
	a.CacheHits += w.nCacheHits
	a.CrossNoAnswer += w.nCrossNoAnswer
	a.Cross += w.nCross
	a.CrossDisagree += w.nCrossDisagree
	a.Steps += w.steps
	a.Paths += w.paths
	a.SolverQueries += w.solver.Queries
	a.SolverSat += w.solver.Sat
	a.SolverUnsat += w.solver.Unsat
	a.SolverUnknown += w.solver.Unknown
	a.SolverErrors += w.solver.Errors
	a.SolverTime += w.solver.Time
	for _, s := range w.aux {
		a.AuxQueries[s.name] += s.Queries
		a.AuxTime[s.name] += s.Time
	}
}

// ---------------------------------------------------------------- summaries

func scalarType(t types.Type) bool {
	_, _, ok := intInfo(t)
	return ok
}

// classifyPure reports 1 for loop-free functions over scalars whose body can
// be evaluated as one guarded data-flow pass (no forks).
func (e *Engine) classifyPure(fn *ssa.Function, fi *fnInfo) int8 {
	if e.noSummaries || len(fn.Blocks) == 0 || len(fn.FreeVars) > 0 || fn.Recover != nil {
		return -1
	}
	if strings.HasPrefix(fn.String(), symPath+".") && !strings.HasPrefix(fn.Name(), "Pure") {
		return -1
	}
	for _, p := range fn.Params {
		if !scalarType(p.Type()) {
			return -1
		}
	}
	res := fn.Signature.Results()
	if res.Len() != 1 || !scalarType(res.At(0).Type()) {
		return -1
	}
	for _, b := range fn.Blocks {
		for _, ins := range b.Instrs {
			switch ins := ins.(type) {
			case *ssa.BinOp:
				if ins.Op == token.QUO || ins.Op == token.REM {
					return -1
				}
				if !scalarType(ins.X.Type()) {
					return -1
				}
			case *ssa.UnOp:
				if ins.Op == token.MUL || ins.Op == token.ARROW {
					return -1
				}
			case *ssa.Convert:
				if !scalarType(ins.X.Type()) || !scalarType(ins.Type()) {
					return -1
				}
			case *ssa.ChangeType, *ssa.Phi, *ssa.If, *ssa.Jump, *ssa.Return, *ssa.DebugRef:
			default:
				return -1
			}
		}
	}
	// acyclic?
	state := map[*ssa.BasicBlock]int{}
	var order []*ssa.BasicBlock
	cyclic := false
	var dfs func(b *ssa.BasicBlock)
	dfs = func(b *ssa.BasicBlock) {
		state[b] = 1
		for _, s := range b.Succs {
			if state[s] == 1 {
				cyclic = true
			} else if state[s] == 0 {
				dfs(s)
			}
		}
		state[b] = 2
		order = append(order, b)
	}
	dfs(fn.Blocks[0])
	if cyclic {
		return -1
	}
	for i, j := 0, len(order)-1; i < j; i, j = i+1, j-1 {
		order[i], order[j] = order[j], order[i]
	}
	fi.order = order
	return 1
}

func (p *Path) summarise(fi *fnInfo, args []Value) Value {
	st := p.st()
	fn := fi.fn
	env := make([]Value, fi.n)
	copy(env, args)
	get := func(v ssa.Value) Value {
		if c, ok := v.(*ssa.Const); ok {
			return p.w.constValue(c)
		}
		return env[fi.index[v]]
	}
	guard := map[*ssa.BasicBlock]*Term{fn.Blocks[0]: st.True}
	edge := map[[2]*ssa.BasicBlock]*Term{}
	var result *Term
	p.steps += len(fi.order)
	for _, b := range fi.order {
		g := guard[b]
		if g == nil {
			g = st.False
		}
		for _, ins := range b.Instrs {
			switch ins := ins.(type) {
			case *ssa.DebugRef:
			case *ssa.Phi:
				var r *Term
				for i, pred := range b.Preds {
					eg := edge[[2]*ssa.BasicBlock{pred, b}]
					if eg == nil || eg == st.False {
						continue
					}
					v := get(ins.Edges[i]).(*Term)
					if r == nil {
						r = v
					} else {
						r = st.Ite(eg, v, r)
					}
				}
				if r == nil {
					w, _, _ := intInfo(ins.Type())
					r = st.Const(w, 0)
				}
				env[fi.index[ins]] = r
			case *ssa.BinOp:
				env[fi.index[ins]] = p.binop(ins.Op, ins.X.Type(), get(ins.X), get(ins.Y), ins.Y.Type())
			case *ssa.UnOp:
				x := get(ins.X).(*Term)
				switch ins.Op {
				case token.NOT:
					env[fi.index[ins]] = st.Not(x)
				case token.SUB:
					env[fi.index[ins]] = st.Bin(OpSub, st.Const(x.w, 0), x)
				case token.XOR:
					env[fi.index[ins]] = st.Bin(OpBXor, x, st.Const(x.w, mask(x.w)))
				}
			case *ssa.Convert:
				env[fi.index[ins]] = p.convert(ins.X.Type(), ins.Type(), get(ins.X))
			case *ssa.ChangeType:
				env[fi.index[ins]] = get(ins.X)
			case *ssa.If:
				c := get(ins.Cond).(*Term)
				e0 := st.And(g, c)
				e1 := st.And(g, st.Not(c))
				addEdge(st, edge, guard, b, b.Succs[0], e0)
				addEdge(st, edge, guard, b, b.Succs[1], e1)
			case *ssa.Jump:
				addEdge(st, edge, guard, b, b.Succs[0], g)
			case *ssa.Return:
				v := get(ins.Results[0]).(*Term)
				if result == nil {
					result = v
				} else {
					result = st.Ite(g, v, result)
				}
			}
		}
	}
	if result == nil {
		unsupportedf("summary of %s has no return", fn)
	}
	return result
}

func addEdge(st *Store, edge map[[2]*ssa.BasicBlock]*Term, guard map[*ssa.BasicBlock]*Term, from, to *ssa.BasicBlock, g *Term) {
	k := [2]*ssa.BasicBlock{from, to}
	if old, ok := edge[k]; ok {
		g = st.Or(old, g)
	}
	edge[k] = g
	if old, ok := guard[to]; ok {
		guard[to] = st.Or(old, g)
	} else {
		guard[to] = g
	}
}

func sortedCounts(m map[string]int) []string {
	ks := make([]string, 0, len(m))
	for k := range m {
		ks = append(ks, k)
	}
	sort.Strings(ks)
	out := make([]string, len(ks))
	for i, k := range ks {
		out[i] = fmt.Sprintf("%s ×%d", k, m[k])
	}
	return out
}
