package main

// Path state, branching, assumptions and assertions (the solver-facing part).

import (
	"fmt"
	"sort"

	"golang.org/x/tools/go/ssa"
)

type pathEnd struct {
	kind string // "done", "assume", "cut", "budget", "panic-handled"
	msg  string
}

type Violation struct {
	Harness   string            `json:"harness"`
	Label     string            `json:"label"`
	Kind      string            `json:"kind"` // assert | panic
	Msg       string            `json:"msg,omitempty"`
	Model     map[string]uint64 `json:"model"`
	Obs       []string          `json:"obs"`
	Decisions string            `json:"decisions"`
	Where     string            `json:"where,omitempty"`
}

type Witness struct {
	Harness string            `json:"harness"`
	Model   map[string]uint64 `json:"model"`
	Obs     []string          `json:"obs"`
	Covers  []string          `json:"covers"`
	Asserts int               `json:"asserts"`
}

type obsRec struct {
	label string
	vals  []Value
}

type Path struct {
	w        *Worker
	harness  string
	prefix   []bool
	nDec     int
	decs     []bool
	pc       []*Term
	model    Model
	memo     map[int32]uint64
	bind     map[int32]*Term
	smemo    map[int32]*Term
	vars     []*Term
	varCount map[string]int
	globals  map[*ssa.Global]*Value
	steps    int
	depth    int
	obs      []obsRec
	covers   []string
	nAsserts int
	curInstr ssa.Instruction
	ended    bool
	// confinement monitor: cells and maps that must not be written any more
	frozenCells   map[*Value]string
	frozenMaps    map[*Map]string
	globalsFrozen bool
}

// freeze marks everything reachable from v as read-only (what names the owner).
func (p *Path) freeze(v Value, what string, seen map[interface{}]bool) {
	switch x := v.(type) {
	case *Value:
		if x == nil || seen[x] {
			return
		}
		seen[x] = true
		p.frozenCells[x] = what
		p.freezeInner(x, what, seen)
	case Iface:
		p.freeze(x.V, what, seen)
	case Slice:
		full := x[:cap(x)]
		for i := range full {
			c := &full[i]
			if !seen[c] {
				seen[c] = true
				p.frozenCells[c] = what
				p.freezeInner(c, what, seen)
			}
		}
	case *Map:
		if x == nil || seen[x] {
			return
		}
		seen[x] = true
		p.frozenMaps[x] = what
		for i := range x.vals {
			p.freeze(x.vals[i], what, seen)
			p.freeze(x.keys[i], what, seen)
		}
	case Struct:
		for i := range x {
			c := &x[i]
			if !seen[c] {
				seen[c] = true
				p.frozenCells[c] = what
				p.freezeInner(c, what, seen)
			}
		}
	case Array:
		for i := range x {
			c := &x[i]
			if !seen[c] {
				seen[c] = true
				p.frozenCells[c] = what
				p.freezeInner(c, what, seen)
			}
		}
	}
	// closures are not traversed: their captured cells belong to the plugin or
	// harness that created them, not to the frozen object
}

func (p *Path) freezeInner(c *Value, what string, seen map[interface{}]bool) {
	p.freeze(*c, what, seen)
}

func (p *Path) checkWrite(c *Value) {
	if len(p.frozenCells) == 0 {
		return
	}
	if what, ok := p.frozenCells[c]; ok {
		p.w.recordViolation(p, "write-to-shared-state", "confinement", "store into "+what, p.model)
		delete(p.frozenCells, c)
	}
}

func (p *Path) checkMapWrite(m *Map) {
	if len(p.frozenMaps) == 0 {
		return
	}
	if what, ok := p.frozenMaps[m]; ok {
		p.w.recordViolation(p, "write-to-shared-state", "confinement", "map update of "+what, p.model)
		delete(p.frozenMaps, m)
	}
}

func (p *Path) st() *Store { return p.w.st }

func (p *Path) end(kind, msg string) {
	panic(pathEnd{kind, msg})
}

func (p *Path) newVar(w uint8, name string) *Term {
	k := p.varCount[name]
	p.varCount[name] = k + 1
	if k > 0 {
		name = fmt.Sprintf("%s#%d", name, k)
	}
	v := p.st().Var(w, name)
	p.vars = append(p.vars, v)
	return v
}

func (p *Path) simplify(c *Term) *Term {
	if c.op == OpConst || len(p.bind) == 0 {
		return c
	}
	return p.st().Subst(c, p.bind, p.smemo)
}

func (p *Path) evalBool(c *Term) bool {
	return Eval(c, p.model, p.memo) != 0
}

func (p *Path) setModel(m Model) {
	// keep values of variables the solver was not asked about
	nm := Model{}
	for k, v := range p.model {
		nm[k] = v
	}
	for k, v := range m {
		nm[k] = v
	}
	p.model = nm
	p.memo = map[int32]uint64{}
}

// take records literal (c == d) in the path condition.
func (p *Path) take(c *Term, d bool) {
	st := p.st()
	lit := c
	if !d {
		lit = st.Not(c)
	}
	p.pc = append(p.pc, lit)
	changed := false
	base := c
	val := d
	if base.op == OpNot {
		base = base.a[0]
		val = !val
	}
	if _, ok := p.bind[base.id]; !ok {
		p.bind[base.id] = st.Bool(val)
		changed = true
	}
	if val && base.op == OpEq && base.a[1].op == OpConst && base.a[0].op != OpConst {
		if _, ok := p.bind[base.a[0].id]; !ok {
			p.bind[base.a[0].id] = base.a[1]
			changed = true
		}
	}
	if val && base.op == OpAnd {
		// both conjuncts hold
		for i := 0; i < 2; i++ {
			x := base.a[i]
			v := true
			if x.op == OpNot {
				x = x.a[0]
				v = false
			}
			if _, ok := p.bind[x.id]; !ok {
				p.bind[x.id] = st.Bool(v)
				changed = true
			}
		}
	}
	if !val && base.op == OpOr {
		for i := 0; i < 2; i++ {
			x := base.a[i]
			v := false
			if x.op == OpNot {
				x = x.a[0]
				v = true
			}
			if _, ok := p.bind[x.id]; !ok {
				p.bind[x.id] = st.Bool(v)
				changed = true
			}
		}
	}
	if changed {
		p.smemo = map[int32]*Term{}
	}
}

// check asks the solver for pc ∧ extra. Only the constraints that share
// variables (transitively) with extra are sent: the rest of the path condition
// is satisfiable (the path keeps a model of it) and variable-disjoint, so the
// answer is the same and the models combine. Answers are cached per worker by
// constraint set.
func (p *Path) check(extra *Term) (Result, Model) {
	w := p.w
	cs := p.pc
	if extra != nil {
		cs = w.slice(p.pc, extra)
	}
	ids := make([]int, len(cs))
	for i, c := range cs {
		ids[i] = int(c.id)
	}
	sort.Ints(ids)
	var kb []byte
	for _, id := range ids {
		kb = append(kb, byte(id), byte(id>>8), byte(id>>16), byte(id>>24))
	}
	key := string(kb)
	if r, ok := w.qcache[key]; ok {
		w.nCacheHits++
		return r.res, r.m
	}
	seen := map[int32]bool{}
	var vars []*Term
	for _, c := range cs {
		for _, v := range w.varsOf(c) {
			if !seen[v] {
				seen[v] = true
				vars = append(vars, w.st.terms[v])
			}
		}
	}
	res, m := w.solver.Check(cs, vars)
	if res == RUnknown {
		w.noteUnknown(p, extra)
	} else {
		if len(w.qcache) > 200000 {
			w.qcache = map[string]qres{}
		}
		w.qcache[key] = qres{res, m}
	}
	return res, m
}

type qres struct {
	res Result
	m   Model
}

// varsOf returns the sorted ids of the variables occurring in t.
func (w *Worker) varsOf(t *Term) []int32 {
	if t.op == OpConst {
		return nil
	}
	if v, ok := w.vcache[t.id]; ok {
		return v
	}
	var out []int32
	if t.op == OpVar {
		out = []int32{t.id}
	} else {
		for i := 0; i < int(t.n); i++ {
			out = mergeSorted(out, w.varsOf(t.a[i]))
		}
	}
	w.vcache[t.id] = out
	return out
}

func mergeSorted(a, b []int32) []int32 {
	if len(a) == 0 {
		return b
	}
	if len(b) == 0 {
		return a
	}
	out := make([]int32, 0, len(a)+len(b))
	i, j := 0, 0
	for i < len(a) && j < len(b) {
		switch {
		case a[i] < b[j]:
			out = append(out, a[i])
			i++
		case a[i] > b[j]:
			out = append(out, b[j])
			j++
		default:
			out = append(out, a[i])
			i++
			j++
		}
	}
	out = append(out, a[i:]...)
	return append(out, b[j:]...)
}

// slice selects the constraints of pc connected to extra through shared
// variables and returns them followed by extra.
func (w *Worker) slice(pc []*Term, extra *Term) []*Term {
	in := map[int32]bool{}
	for _, v := range w.varsOf(extra) {
		in[v] = true
	}
	taken := make([]bool, len(pc))
	for changed := true; changed; {
		changed = false
		for i, c := range pc {
			if taken[i] {
				continue
			}
			vs := w.varsOf(c)
			hit := false
			for _, v := range vs {
				if in[v] {
					hit = true
					break
				}
			}
			if hit {
				taken[i] = true
				changed = true
				for _, v := range vs {
					in[v] = true
				}
			}
		}
	}
	out := make([]*Term, 0, len(pc)+1)
	for i, c := range pc {
		if taken[i] {
			out = append(out, c)
		}
	}
	return append(out, extra)
}

// branch decides a symbolic condition, forking the exploration.
func (p *Path) branch(c *Term) bool {
	c = p.simplify(c)
	if c.op == OpConst {
		return c.c != 0
	}
	if p.nDec < len(p.prefix) {
		d := p.prefix[p.nDec]
		p.nDec++
		p.decs = append(p.decs, d)
		p.take(c, d)
		return d
	}
	v := p.evalBool(c)
	other := c
	if v {
		other = p.st().Not(c)
	}
	p.w.nForkQueries++
	res, m := p.check(other)
	if res == RSat {
		nd := make([]bool, len(p.decs)+1)
		copy(nd, p.decs)
		nd[len(p.decs)] = !v
		nm := Model{}
		for k, x := range p.model {
			nm[k] = x
		}
		for k, x := range m {
			nm[k] = x
		}
		p.w.push(&workItem{harness: p.harness, prefix: nd, model: nm})
		p.w.nForks++
	}
	p.nDec++
	p.decs = append(p.decs, v)
	p.take(c, v)
	return v
}

// assume adds c to the path condition or ends the path if infeasible.
func (p *Path) assume(c *Term) {
	c = p.simplify(c)
	if c.op == OpConst {
		if c.c == 0 {
			p.end("assume", "")
		}
		return
	}
	if !p.evalBool(c) {
		p.w.nAssumeQueries++
		res, m := p.check(c)
		if res != RSat {
			p.end("assume", "")
		}
		p.setModel(m)
	}
	p.take(c, true)
}

// assert checks c on this path; a counterexample is recorded and the path
// continues under the assumption that c holds.
func (p *Path) assert(c *Term, label, kind, msg string) {
	p.nAsserts++
	c = p.simplify(c)
	if c.op == OpConst && c.c != 0 {
		p.w.nAssertTrivial++
		return
	}
	neg := p.st().Not(c)
	var res Result
	var m Model
	if neg.op == OpConst {
		res = RSat
		m = Model{}
	} else {
		p.w.nAssertQueries++
		res, m = p.check(neg)
		if p.w.eng.crossCheck && res != RUnknown {
			p.w.crossCheck(p, neg, res)
		}
	}
	switch res {
	case RSat:
		full := Model{}
		for k, x := range p.model {
			full[k] = x
		}
		for k, x := range m {
			full[k] = x
		}
		p.w.recordViolation(p, label, kind, msg, full)
	case RUnsat:
		p.w.nAssertUnsat++
	}
	if c.op == OpConst {
		p.end("assert-failed", label)
	}
	p.assume(c)
}

// fail records an unconditional failure on this path (explicit panic, nil
// dereference with concrete nil, ...) and ends the path.
func (p *Path) fail(label, msg string) {
	p.w.recordViolation(p, label, "panic", msg, p.model)
	p.end("panic", msg)
}

func (p *Path) evalObs(m Model) []string {
	out := make([]string, 0, len(p.obs))
	for _, o := range p.obs {
		s := o.label + "="
		for i, v := range o.vals {
			if i > 0 {
				s += " "
			}
			s += renderValue(v, m)
		}
		out = append(out, s)
	}
	return out
}

func decString(d []bool) string {
	b := make([]byte, len(d))
	for i, x := range d {
		if x {
			b[i] = '1'
		} else {
			b[i] = '0'
		}
	}
	return string(b)
}

func modelForOutput(vars []*Term, m Model) map[string]uint64 {
	out := map[string]uint64{}
	for _, v := range vars {
		out[v.name] = m[v.name] & mask(v.w)
	}
	return out
}

func sortedKeys(m map[string]int) []string {
	ks := make([]string, 0, len(m))
	for k := range m {
		ks = append(ks, k)
	}
	sort.Strings(ks)
	return ks
}
