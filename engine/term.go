package main

// Hash-consed SMT terms (Bool and fixed-width bit-vectors) with constant
// folding, evaluation under a model and SMT-LIB2 printing.

import (
	"fmt"
	"strings"
)

type Op uint8

const (
	OpConst Op = iota
	OpVar
	OpNot
	OpAnd
	OpOr
	OpEq
	OpIte
	OpAdd
	OpSub
	OpMul
	OpUDiv
	OpSDiv
	OpURem
	OpSRem
	OpBAnd
	OpBOr
	OpBXor
	OpShl
	OpLShr
	OpAShr
	OpUlt
	OpSlt
	OpUle
	OpSle
	OpZExt
	OpSExt
	OpTrunc
)

var opSMT = [...]string{
	OpNot: "not", OpAnd: "and", OpOr: "or", OpEq: "=", OpIte: "ite",
	OpAdd: "bvadd", OpSub: "bvsub", OpMul: "bvmul", OpUDiv: "bvudiv", OpSDiv: "bvsdiv",
	OpURem: "bvurem", OpSRem: "bvsrem", OpBAnd: "bvand", OpBOr: "bvor", OpBXor: "bvxor",
	OpShl: "bvshl", OpLShr: "bvlshr", OpAShr: "bvashr",
	OpUlt: "bvult", OpSlt: "bvslt", OpUle: "bvule", OpSle: "bvsle",
}

// Term is immutable. w == 0 means sort Bool, otherwise (_ BitVec w).
type Term struct {
	op   Op
	w    uint8
	id   int32
	c    uint64 // OpConst: value masked to w bits (Bool: 0/1)
	name string // OpVar
	a    [3]*Term
	n    uint8  // number of args
	k0   uint64 // bits known to be 0 (bit-vectors)
	k1   uint64 // bits known to be 1
}

func (t *Term) IsConst() bool { return t.op == OpConst }
func (t *Term) IsBool() bool  { return t.w == 0 }

type tkey struct {
	op      Op
	w       uint8
	c       uint64
	a, b, d int32
	name    string
}

// Store is the per-worker hash-consing table.
type Store struct {
	tab   map[tkey]*Term
	terms []*Term
	True  *Term
	False *Term
}

func NewStore() *Store {
	s := &Store{tab: map[tkey]*Term{}}
	s.True = s.Const(0, 1)
	s.False = s.Const(0, 0)
	return s
}

func mask(w uint8) uint64 {
	if w == 0 {
		return 1
	}
	if w >= 64 {
		return ^uint64(0)
	}
	return (uint64(1) << w) - 1
}

func sext(v uint64, w uint8) int64 {
	if w == 0 || w >= 64 {
		return int64(v)
	}
	sh := 64 - uint(w)
	return int64(v<<sh) >> sh
}

func (s *Store) mk(op Op, w uint8, c uint64, name string, args ...*Term) *Term {
	k := tkey{op: op, w: w, c: c, name: name, a: -1, b: -1, d: -1}
	if len(args) > 0 {
		k.a = args[0].id
	}
	if len(args) > 1 {
		k.b = args[1].id
	}
	if len(args) > 2 {
		k.d = args[2].id
	}
	if t, ok := s.tab[k]; ok {
		return t
	}
	t := &Term{op: op, w: w, c: c, name: name, id: int32(len(s.terms)), n: uint8(len(args))}
	copy(t.a[:], args)
	knownBits(t)
	s.terms = append(s.terms, t)
	s.tab[k] = t
	return t
}

// knownBits computes the bits of a bit-vector term that are the same in
// every model (a cheap abstract interpretation used by the folding rules).
func knownBits(t *Term) {
	if t.w == 0 {
		return
	}
	m := mask(t.w)
	a, b := t.a[0], t.a[1]
	switch t.op {
	case OpConst:
		t.k1 = t.c
		t.k0 = ^t.c & m
	case OpBAnd:
		t.k0 = a.k0 | b.k0
		t.k1 = a.k1 & b.k1
	case OpBOr:
		t.k1 = a.k1 | b.k1
		t.k0 = a.k0 & b.k0
	case OpBXor:
		t.k1 = (a.k1 & b.k0) | (a.k0 & b.k1)
		t.k0 = (a.k0 & b.k0) | (a.k1 & b.k1)
	case OpZExt:
		t.k0 = a.k0 | (m &^ mask(a.w))
		t.k1 = a.k1
	case OpSExt:
		sign := uint64(1) << (a.w - 1)
		t.k0, t.k1 = a.k0, a.k1
		if a.k0&sign != 0 {
			t.k0 |= m &^ mask(a.w)
		} else if a.k1&sign != 0 {
			t.k1 |= m &^ mask(a.w)
		}
	case OpTrunc:
		t.k0 = a.k0 & m
		t.k1 = a.k1 & m
	case OpShl:
		if b.op == OpConst && b.c < uint64(t.w) {
			t.k0 = ((a.k0 << b.c) | ((uint64(1) << b.c) - 1)) & m
			t.k1 = (a.k1 << b.c) & m
		}
	case OpLShr:
		if b.op == OpConst && b.c < uint64(t.w) {
			t.k0 = (a.k0 >> b.c) | (m &^ (m >> b.c))
			t.k1 = a.k1 >> b.c
		}
	case OpIte:
		x, y := t.a[1], t.a[2]
		t.k0 = x.k0 & y.k0
		t.k1 = x.k1 & y.k1
	case OpAdd:
		if (a.k0|b.k0)&m == m { // no bit position where both may be 1: add == or
			t.k1 = a.k1 | b.k1
			t.k0 = a.k0 & b.k0
		}
	}
}

func (t *Term) umax() uint64 { return ^t.k0 & mask(t.w) }
func (t *Term) umin() uint64 { return t.k1 }

func (s *Store) Const(w uint8, v uint64) *Term {
	return s.mk(OpConst, w, v&mask(w), "")
}
func (s *Store) Bool(b bool) *Term {
	if b {
		return s.True
	}
	return s.False
}
func (s *Store) Var(w uint8, name string) *Term { return s.mk(OpVar, w, 0, name) }

func (s *Store) Not(a *Term) *Term {
	if a.op == OpConst {
		return s.Bool(a.c == 0)
	}
	if a.op == OpNot {
		return a.a[0]
	}
	return s.mk(OpNot, 0, 0, "", a)
}

func (s *Store) And(a, b *Term) *Term {
	if a.op == OpConst {
		if a.c == 0 {
			return s.False
		}
		return b
	}
	if b.op == OpConst {
		if b.c == 0 {
			return s.False
		}
		return a
	}
	if a == b {
		return a
	}
	if s.Not(a) == b {
		return s.False
	}
	return s.mk(OpAnd, 0, 0, "", a, b)
}

func (s *Store) Or(a, b *Term) *Term {
	if a.op == OpConst {
		if a.c != 0 {
			return s.True
		}
		return b
	}
	if b.op == OpConst {
		if b.c != 0 {
			return s.True
		}
		return a
	}
	if a == b {
		return a
	}
	if s.Not(a) == b {
		return s.True
	}
	return s.mk(OpOr, 0, 0, "", a, b)
}

func (s *Store) Eq(a, b *Term) *Term {
	if a.w != b.w {
		panic(fmt.Sprintf("Eq width mismatch %d %d", a.w, b.w))
	}
	if a == b {
		return s.True
	}
	if a.op == OpConst && b.op == OpConst {
		return s.Bool(a.c == b.c)
	}
	if a.w == 0 {
		// boolean equality
		if a.op == OpConst {
			if a.c != 0 {
				return b
			}
			return s.Not(b)
		}
		if b.op == OpConst {
			if b.c != 0 {
				return a
			}
			return s.Not(a)
		}
	}
	if a.w != 0 && ((a.k1&b.k0)|(a.k0&b.k1)) != 0 {
		return s.False
	}
	// canonical order: constant on the right
	if a.op == OpConst || (b.op != OpConst && a.id > b.id) {
		a, b = b, a
	}
	// (x + c1) == c2  ->  x == c2-c1
	if b.op == OpConst && a.op == OpAdd && a.a[1].op == OpConst {
		return s.Eq(a.a[0], s.Const(a.w, b.c-a.a[1].c))
	}
	// ite(c, k1, k2) == k  with constants
	if b.op == OpConst && a.op == OpIte && a.a[1].op == OpConst && a.a[2].op == OpConst {
		t1 := a.a[1].c == b.c
		t2 := a.a[2].c == b.c
		switch {
		case t1 && t2:
			return s.True
		case t1:
			return a.a[0]
		case t2:
			return s.Not(a.a[0])
		default:
			return s.False
		}
	}
	// zext(x) == k
	if b.op == OpConst && a.op == OpZExt {
		x := a.a[0]
		if b.c&^mask(x.w) != 0 {
			return s.False
		}
		return s.Eq(x, s.Const(x.w, b.c))
	}
	return s.mk(OpEq, 0, 0, "", a, b)
}

func (s *Store) Ite(c, a, b *Term) *Term {
	if a.w != b.w {
		panic("Ite width mismatch")
	}
	if c.op == OpConst {
		if c.c != 0 {
			return a
		}
		return b
	}
	if a == b {
		return a
	}
	if a.w == 0 {
		if a.op == OpConst && b.op == OpConst {
			if a.c != 0 {
				return c
			}
			return s.Not(c)
		}
		if a.op == OpConst {
			if a.c != 0 {
				return s.Or(c, b)
			}
			return s.And(s.Not(c), b)
		}
		if b.op == OpConst {
			if b.c != 0 {
				return s.Or(s.Not(c), a)
			}
			return s.And(c, a)
		}
	}
	if c.op == OpNot {
		return s.mk(OpIte, a.w, 0, "", c.a[0], b, a)
	}
	return s.mk(OpIte, a.w, 0, "", c, a, b)
}

func foldBin(op Op, w uint8, x, y uint64) (uint64, bool) {
	m := mask(w)
	switch op {
	case OpAdd:
		return (x + y) & m, true
	case OpSub:
		return (x - y) & m, true
	case OpMul:
		return (x * y) & m, true
	case OpUDiv:
		if y == 0 {
			return m, true
		}
		return (x / y) & m, true
	case OpURem:
		if y == 0 {
			return x, true
		}
		return (x % y) & m, true
	case OpSDiv:
		if y == 0 {
			if sext(x, w) < 0 {
				return 1, true
			}
			return m, true
		}
		sx, sy := sext(x, w), sext(y, w)
		if sy == -1 {
			return uint64(-sx) & m, true
		}
		return uint64(sx/sy) & m, true
	case OpSRem:
		if y == 0 {
			return x, true
		}
		sx, sy := sext(x, w), sext(y, w)
		if sy == -1 {
			return 0, true
		}
		return uint64(sx%sy) & m, true
	case OpBAnd:
		return x & y, true
	case OpBOr:
		return x | y, true
	case OpBXor:
		return x ^ y, true
	case OpShl:
		if y >= uint64(w) {
			return 0, true
		}
		return (x << y) & m, true
	case OpLShr:
		if y >= uint64(w) {
			return 0, true
		}
		return (x >> y) & m, true
	case OpAShr:
		sx := sext(x, w)
		if y >= uint64(w) {
			if sx < 0 {
				return m, true
			}
			return 0, true
		}
		return uint64(sx>>y) & m, true
	case OpUlt:
		return b2u(x < y), true
	case OpUle:
		return b2u(x <= y), true
	case OpSlt:
		return b2u(sext(x, w) < sext(y, w)), true
	case OpSle:
		return b2u(sext(x, w) <= sext(y, w)), true
	}
	return 0, false
}

func b2u(b bool) uint64 {
	if b {
		return 1
	}
	return 0
}

// Bin builds a binary bit-vector operation (arithmetic or comparison).
func (s *Store) Bin(op Op, a, b *Term) *Term {
	if a.w != b.w || a.w == 0 {
		panic(fmt.Sprintf("Bin %v width mismatch %d %d", op, a.w, b.w))
	}
	rw := a.w
	cmp := op == OpUlt || op == OpUle || op == OpSlt || op == OpSle
	if cmp {
		rw = 0
	}
	if a.op == OpConst && b.op == OpConst {
		v, _ := foldBin(op, a.w, a.c, b.c)
		return s.Const(rw, v)
	}
	switch op {
	case OpAdd:
		if a.op == OpConst {
			a, b = b, a
		}
		if b.op == OpConst {
			if b.c == 0 {
				return a
			}
			// (x + c1) + c2
			if a.op == OpAdd && a.a[1].op == OpConst {
				return s.Bin(OpAdd, a.a[0], s.Const(a.w, a.a[1].c+b.c))
			}
		}
		// (x - y) + y = x ; y + (x - y) = x
		if a.op == OpSub && a.a[1] == b {
			return a.a[0]
		}
		if b.op == OpSub && b.a[1] == a {
			return b.a[0]
		}
	case OpSub:
		if a == b {
			return s.Const(a.w, 0)
		}
		if b.op == OpConst {
			return s.Bin(OpAdd, a, s.Const(a.w, -b.c))
		}
		// (x + c) - x = c ; (x + c1) - (x + c2) = c1-c2
		ab, ac := splitAdd(a)
		bb, bc := splitAdd(b)
		if ab != nil && ab == bb {
			return s.Const(a.w, ac-bc)
		}
		// (x + y) - y = x ; (x + y) - x = y
		if a.op == OpAdd && a.a[1] == b {
			return a.a[0]
		}
		if a.op == OpAdd && a.a[0] == b {
			return a.a[1]
		}
	case OpMul:
		if a.op == OpConst {
			a, b = b, a
		}
		if b.op == OpConst {
			if b.c == 0 {
				return b
			}
			if b.c == 1 {
				return a
			}
		}
	case OpBAnd:
		if a.op == OpConst {
			a, b = b, a
		}
		if b.op == OpConst {
			if b.c == 0 {
				return b
			}
			if b.c == mask(a.w) {
				return a
			}
		}
		if a == b {
			return a
		}
	case OpBOr, OpBXor:
		if a.op == OpConst {
			a, b = b, a
		}
		if b.op == OpConst && b.c == 0 {
			return a
		}
	case OpShl, OpLShr, OpAShr:
		if b.op == OpConst && b.c == 0 {
			return a
		}
	case OpUlt:
		if a == b {
			return s.False
		}
		if a.umax() < b.umin() {
			return s.True
		}
		if a.umin() >= b.umax() {
			return s.False
		}
	case OpUle:
		if a == b {
			return s.True
		}
		if a.umax() <= b.umin() {
			return s.True
		}
		if a.umin() > b.umax() {
			return s.False
		}
	case OpSlt:
		if a == b {
			return s.False
		}
		if sign := uint64(1) << (a.w - 1); a.k0&sign != 0 && b.k0&sign != 0 {
			return s.Bin(OpUlt, a, b)
		}
	case OpSle:
		if a == b {
			return s.True
		}
		if sign := uint64(1) << (a.w - 1); a.k0&sign != 0 && b.k0&sign != 0 {
			return s.Bin(OpUle, a, b)
		}
	}
	return s.mk(op, rw, 0, "", a, b)
}

// splitAdd views t as base + const.
func splitAdd(t *Term) (*Term, uint64) {
	if t.op == OpAdd && t.a[1].op == OpConst {
		return t.a[0], t.a[1].c
	}
	if t.op == OpConst {
		return nil, t.c
	}
	return t, 0
}

// Resize converts a bit-vector to width w, extending by signedness of the source.
func (s *Store) Resize(a *Term, w uint8, signed bool) *Term {
	if a.w == 0 {
		panic("Resize of Bool")
	}
	if a.w == w {
		return a
	}
	if a.op == OpConst {
		if w > a.w && signed {
			return s.Const(w, uint64(sext(a.c, a.w)))
		}
		return s.Const(w, a.c)
	}
	if w < a.w {
		// trunc(zext(x)) / trunc(sext(x))
		if (a.op == OpZExt || a.op == OpSExt) && a.a[0].w >= w {
			return s.Resize(a.a[0], w, false)
		}
		return s.mk(OpTrunc, w, 0, "", a)
	}
	if signed {
		return s.mk(OpSExt, w, 0, "", a)
	}
	if a.op == OpZExt {
		return s.mk(OpZExt, w, 0, "", a.a[0])
	}
	return s.mk(OpZExt, w, 0, "", a)
}

// Model maps variable names to values.
type Model map[string]uint64

// Eval evaluates t under m (missing variables read as 0). memo may be nil.
func Eval(t *Term, m Model, memo map[int32]uint64) uint64 {
	if t.op == OpConst {
		return t.c
	}
	if memo != nil {
		if v, ok := memo[t.id]; ok {
			return v
		}
	}
	var v uint64
	switch t.op {
	case OpVar:
		v = m[t.name] & mask(t.w)
	case OpNot:
		v = 1 - Eval(t.a[0], m, memo)
	case OpAnd:
		v = Eval(t.a[0], m, memo) & Eval(t.a[1], m, memo)
	case OpOr:
		v = Eval(t.a[0], m, memo) | Eval(t.a[1], m, memo)
	case OpEq:
		v = b2u(Eval(t.a[0], m, memo) == Eval(t.a[1], m, memo))
	case OpIte:
		if Eval(t.a[0], m, memo) != 0 {
			v = Eval(t.a[1], m, memo)
		} else {
			v = Eval(t.a[2], m, memo)
		}
	case OpZExt:
		v = Eval(t.a[0], m, memo)
	case OpSExt:
		v = uint64(sext(Eval(t.a[0], m, memo), t.a[0].w)) & mask(t.w)
	case OpTrunc:
		v = Eval(t.a[0], m, memo) & mask(t.w)
	default:
		x := Eval(t.a[0], m, memo)
		y := Eval(t.a[1], m, memo)
		r, ok := foldBin(t.op, t.a[0].w, x, y)
		if !ok {
			panic("Eval: unknown op")
		}
		v = r
	}
	if memo != nil {
		memo[t.id] = v
	}
	return v
}

func sortOf(w uint8) string {
	if w == 0 {
		return "Bool"
	}
	return fmt.Sprintf("(_ BitVec %d)", w)
}

func constSMT(t *Term) string {
	if t.w == 0 {
		if t.c != 0 {
			return "true"
		}
		return "false"
	}
	if t.w%4 == 0 {
		return fmt.Sprintf("#x%0*x", int(t.w/4), t.c)
	}
	return fmt.Sprintf("#b%0*b", int(t.w), t.c)
}

// smtName returns the symbol under which t is known to the solver.
func smtName(t *Term) string {
	switch t.op {
	case OpConst:
		return constSMT(t)
	case OpVar:
		return "|" + t.name + "|"
	}
	return fmt.Sprintf("t%d", t.id)
}

// smtDef returns the body of the define-fun for a non-leaf term.
func smtDef(t *Term) string {
	var sb strings.Builder
	switch t.op {
	case OpZExt:
		fmt.Fprintf(&sb, "((_ zero_extend %d) %s)", t.w-t.a[0].w, smtName(t.a[0]))
	case OpSExt:
		fmt.Fprintf(&sb, "((_ sign_extend %d) %s)", t.w-t.a[0].w, smtName(t.a[0]))
	case OpTrunc:
		fmt.Fprintf(&sb, "((_ extract %d 0) %s)", t.w-1, smtName(t.a[0]))
	default:
		sb.WriteString("(")
		sb.WriteString(opSMT[t.op])
		for i := 0; i < int(t.n); i++ {
			sb.WriteString(" ")
			sb.WriteString(smtName(t.a[i]))
		}
		sb.WriteString(")")
	}
	return sb.String()
}

// String renders a term for diagnostics (tree form, truncated).
func (t *Term) String() string {
	return termStr(t, 6)
}

func termStr(t *Term, depth int) string {
	switch t.op {
	case OpConst:
		if t.w == 0 {
			if t.c != 0 {
				return "true"
			}
			return "false"
		}
		return fmt.Sprintf("%d", sext(t.c, t.w))
	case OpVar:
		return t.name
	}
	if depth == 0 {
		return "…"
	}
	var sb strings.Builder
	sb.WriteString("(")
	switch t.op {
	case OpZExt:
		sb.WriteString("zext")
	case OpSExt:
		sb.WriteString("sext")
	case OpTrunc:
		fmt.Fprintf(&sb, "trunc%d", t.w)
	default:
		sb.WriteString(opSMT[t.op])
	}
	for i := 0; i < int(t.n); i++ {
		sb.WriteString(" ")
		sb.WriteString(termStr(t.a[i], depth-1))
	}
	sb.WriteString(")")
	return sb.String()
}

// Subst rewrites t replacing variables/terms bound in env (by term id) and
// re-folding. memo is keyed by term id.
func (s *Store) Subst(t *Term, env map[int32]*Term, memo map[int32]*Term) *Term {
	if t.op == OpConst {
		return t
	}
	if r, ok := env[t.id]; ok {
		return r
	}
	if t.op == OpVar {
		return t
	}
	if r, ok := memo[t.id]; ok {
		return r
	}
	var r *Term
	a0 := s.Subst(t.a[0], env, memo)
	var a1, a2 *Term
	if t.n > 1 {
		a1 = s.Subst(t.a[1], env, memo)
	}
	if t.n > 2 {
		a2 = s.Subst(t.a[2], env, memo)
	}
	same := a0 == t.a[0] && (t.n < 2 || a1 == t.a[1]) && (t.n < 3 || a2 == t.a[2])
	if same {
		r = t
	} else {
		switch t.op {
		case OpNot:
			r = s.Not(a0)
		case OpAnd:
			r = s.And(a0, a1)
		case OpOr:
			r = s.Or(a0, a1)
		case OpEq:
			r = s.Eq(a0, a1)
		case OpIte:
			r = s.Ite(a0, a1, a2)
		case OpZExt:
			r = s.Resize(a0, t.w, false)
		case OpSExt:
			r = s.Resize(a0, t.w, true)
		case OpTrunc:
			r = s.Resize(a0, t.w, false)
		default:
			r = s.Bin(t.op, a0, a1)
		}
	}
	memo[t.id] = r
	return r
}
