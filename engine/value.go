package main

// Engine values. Scalars are *Term; control flow, heap shape and container
// lengths are concrete per path.
//
//   *Term                bool / integers
//   Str                  string: concrete length, byte terms
//   Struct, Array        aggregates (copied on load/store)
//   *Value               pointer to a cell
//   Slice                Go slice of cells (sharing as in Go)
//   *Map                 insertion-ordered association list
//   Iface                interface value (T == nil: nil interface)
//   *ssa.Function, *Closure, *ssa.Builtin   functions ((*Closure)(nil): nil func)
//   Tuple                multiple results
//   *mapIter, *strIter   range iterators

import (
	"fmt"
	"go/types"
	"strings"

	"golang.org/x/tools/go/ssa"
)

type Value interface{}

type Str struct{ b []*Term }

type Struct []Value
type Array []Value
type Slice []Value
type Tuple []Value

type Iface struct {
	T types.Type
	V Value
}

type Closure struct {
	Fn  *ssa.Function
	Env []Value
}

type Map struct {
	keys []Value
	vals []Value
}

type mapIter struct {
	m *Map
	i int
}

type strIter struct {
	s Str
	i int
}

type unsupported struct{ msg string }

func unsupportedf(format string, args ...interface{}) {
	panic(unsupported{fmt.Sprintf(format, args...)})
}

func intInfo(t types.Type) (w uint8, signed bool, ok bool) {
	b, isb := t.Underlying().(*types.Basic)
	if !isb {
		return 0, false, false
	}
	switch b.Kind() {
	case types.Bool, types.UntypedBool:
		return 0, false, true
	case types.Int, types.Int64, types.UntypedInt:
		return 64, true, true
	case types.Int8:
		return 8, true, true
	case types.Int16:
		return 16, true, true
	case types.Int32, types.UntypedRune:
		return 32, true, true
	case types.Uint, types.Uint64, types.Uintptr:
		return 64, false, true
	case types.Uint8:
		return 8, false, true
	case types.Uint16:
		return 16, false, true
	case types.Uint32:
		return 32, false, true
	}
	return 0, false, false
}

func isString(t types.Type) bool {
	b, ok := t.Underlying().(*types.Basic)
	return ok && b.Info()&types.IsString != 0
}

// zero returns the zero value of type t.
func (st *Store) zero(t types.Type) Value {
	switch u := t.Underlying().(type) {
	case *types.Basic:
		if u.Kind() == types.UnsafePointer {
			return (*Value)(nil)
		}
		if isString(t) {
			return Str{}
		}
		if w, _, ok := intInfo(t); ok {
			return st.Const(w, 0)
		}
		if u.Kind() == types.UntypedNil {
			return Iface{}
		}
		unsupportedf("zero value of basic type %s", t)
	case *types.Struct:
		s := make(Struct, u.NumFields())
		for i := range s {
			s[i] = st.zero(u.Field(i).Type())
		}
		return s
	case *types.Array:
		a := make(Array, u.Len())
		for i := range a {
			a[i] = st.zero(u.Elem())
		}
		return a
	case *types.Pointer:
		return (*Value)(nil)
	case *types.Slice:
		return Slice(nil)
	case *types.Map:
		return (*Map)(nil)
	case *types.Interface:
		return Iface{}
	case *types.Signature:
		return (*Closure)(nil)
	case *types.Tuple:
		tp := make(Tuple, u.Len())
		for i := range tp {
			tp[i] = st.zero(u.At(i).Type())
		}
		return tp
	}
	unsupportedf("zero value of type %s", t)
	return nil
}

// copyVal copies aggregates (value semantics of Go assignment).
func copyVal(v Value) Value {
	switch v := v.(type) {
	case Struct:
		c := make(Struct, len(v))
		for i, x := range v {
			c[i] = copyVal(x)
		}
		return c
	case Array:
		c := make(Array, len(v))
		for i, x := range v {
			c[i] = copyVal(x)
		}
		return c
	}
	return v
}

func strConst(st *Store, s string) Str {
	b := make([]*Term, len(s))
	for i := 0; i < len(s); i++ {
		b[i] = st.Const(8, uint64(s[i]))
	}
	return Str{b}
}

// concrete returns the Go string if every byte is constant.
func (s Str) concrete() (string, bool) {
	var sb strings.Builder
	for _, t := range s.b {
		if t.op != OpConst {
			return "", false
		}
		sb.WriteByte(byte(t.c))
	}
	return sb.String(), true
}

func (s Str) eval(m Model) string {
	var sb strings.Builder
	for _, t := range s.b {
		sb.WriteByte(byte(Eval(t, m, nil)))
	}
	return sb.String()
}

// eqTerm builds the Bool term "a == b" for comparable values.
func (st *Store) eqTerm(a, b Value) *Term {
	switch a := a.(type) {
	case *Term:
		return st.Eq(a, b.(*Term))
	case Str:
		bs := b.(Str)
		if len(a.b) != len(bs.b) {
			return st.False
		}
		r := st.True
		for i := range a.b {
			r = st.And(r, st.Eq(a.b[i], bs.b[i]))
			if r == st.False {
				return r
			}
		}
		return r
	case Struct:
		bs := b.(Struct)
		r := st.True
		for i := range a {
			r = st.And(r, st.eqTerm(a[i], bs[i]))
		}
		return r
	case Array:
		bs := b.(Array)
		r := st.True
		for i := range a {
			r = st.And(r, st.eqTerm(a[i], bs[i]))
		}
		return r
	case *Value:
		return st.Bool(a == b.(*Value))
	case *Map:
		bm, _ := b.(*Map)
		return st.Bool(a == bm)
	case Slice:
		// only comparison with nil is legal
		bs, _ := b.(Slice)
		return st.Bool(a == nil && bs == nil)
	case Iface:
		bi, ok := b.(Iface)
		if !ok {
			unsupportedf("comparison of interface with %T", b)
		}
		if a.T == nil || bi.T == nil {
			return st.Bool(a.T == nil && bi.T == nil)
		}
		if !types.Identical(a.T, bi.T) {
			return st.False
		}
		return st.eqTerm(a.V, bi.V)
	case *Closure:
		switch b := b.(type) {
		case *Closure:
			return st.Bool(a == nil && b == nil)
		case *ssa.Function:
			return st.False
		}
	case *ssa.Function:
		if c, ok := b.(*Closure); ok && c == nil {
			return st.False
		}
	}
	unsupportedf("comparison of %T and %T", a, b)
	return nil
}

// sameFunc reports whether two function values are the same map value for
// the purpose of grouping.
func describe(v Value) string {
	switch v := v.(type) {
	case *Term:
		return v.String()
	case Str:
		if s, ok := v.concrete(); ok {
			return fmt.Sprintf("%q", s)
		}
		return fmt.Sprintf("str[%d]", len(v.b))
	case Struct:
		return fmt.Sprintf("struct%d", len(v))
	case Iface:
		if v.T == nil {
			return "nil-iface"
		}
		return "iface(" + v.T.String() + ")"
	}
	return fmt.Sprintf("%T", v)
}
