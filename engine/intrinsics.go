package main

// Intrinsics: the harness API (package sym) and models of the few standard
// library functions the code under test calls.

import (
	"fmt"
	"go/types"
	"strconv"
	"strings"

	"golang.org/x/tools/go/ssa"
)

const symPath = "github.com/xjslang/xjs/zzverif/sym"

type intrinsic func(p *Path, caller *frame, fn *ssa.Function, args []Value) Value

var intrinsics map[string]intrinsic

func init() {
	intrinsics = map[string]intrinsic{
		symPath + ".Int":           symInt(64),
		symPath + ".Int32":         symInt(32),
		symPath + ".Byte":          symInt(8),
		symPath + ".Bool":          symInt(0),
		symPath + ".Bytes":         symBytes,
		symPath + ".String":        symString,
		symPath + ".Choose":        symChoose,
		symPath + ".Assume":        symAssume,
		symPath + ".Assert":        symAssert,
		symPath + ".Cover":         symCover,
		symPath + ".Cut":           symCut,
		symPath + ".Observe":       symObserve,
		symPath + ".And":           symAnd,
		symPath + ".Or":            symOr,
		symPath + ".Not":           symNot,
		symPath + ".Implies":       symImplies,
		symPath + ".Ite":           symIte,
		symPath + ".IteByte":       symIte,
		symPath + ".EqStr":         symEqStr,
		symPath + ".Concrete":      symConcrete,
		symPath + ".Symbolic":      func(p *Path, _ *frame, _ *ssa.Function, _ []Value) Value { return p.st().True },
		symPath + ".IsConcrete":    symIsConcrete,
		symPath + ".Fork":          symFork,
		symPath + ".Param":         symParam,
		symPath + ".Freeze":        symFreeze,
		symPath + ".FreezeGlobals": symFreezeGlobals,

		"(*strings.Builder).WriteString": sbWriteString,
		"(*strings.Builder).WriteByte":   sbWriteByte,
		"(*strings.Builder).Write":       sbWrite,
		"(*strings.Builder).WriteRune":   sbWriteRune,
		"(*strings.Builder).String":      sbString,
		"(*strings.Builder).Len":         sbLen,
		"(*strings.Builder).Reset":       sbReset,
		"(*strings.Builder).Grow":        func(*Path, *frame, *ssa.Function, []Value) Value { return nil },

		"strings.TrimSpace": strFunc1("ModelTrimSpace", func(a []string) interface{} { return strings.TrimSpace(a[0]) }),
		"strings.TrimRight": strFunc1("ModelTrimRight", func(a []string) interface{} { return strings.TrimRight(a[0], a[1]) }),
		"strings.TrimLeft":  strFunc1("ModelTrimLeft", func(a []string) interface{} { return strings.TrimLeft(a[0], a[1]) }),
		"strings.Split":     strFunc1("ModelSplit", func(a []string) interface{} { return strings.Split(a[0], a[1]) }),
		"strings.HasPrefix": strFunc1("ModelHasPrefix", func(a []string) interface{} { return strings.HasPrefix(a[0], a[1]) }),
		"strings.HasSuffix": strFunc1("ModelHasSuffix", func(a []string) interface{} { return strings.HasSuffix(a[0], a[1]) }),
		"strings.Contains":  strFunc1("ModelContains", func(a []string) interface{} { return strings.Contains(a[0], a[1]) }),
		"strings.Join":      strJoin,
		"strings.Repeat":    strRepeat,

		"maps.clone": mapsClone,
		"maps.Clone": mapsClone,

		"fmt.Sprintf": fmtSprintf,
		"fmt.Errorf":  fmtErrorf,
		"fmt.Sprint":  fmtSprint,
		"errors.New":  errorsNew,
		"errors.Is":   errorsIs,

		"strconv.ParseInt":   scParseInt,
		"strconv.ParseFloat": scParseFloat,
		"strconv.Itoa":       scItoa,
		"strconv.Quote":      scQuote,
	}
}

func argStr(v Value) string {
	s, ok := v.(Str).concrete()
	if !ok {
		unsupportedf("symbolic string where a constant name is required")
	}
	return s
}

func symInt(w uint8) intrinsic {
	return func(p *Path, _ *frame, _ *ssa.Function, args []Value) Value {
		return p.newVar(w, argStr(args[0]))
	}
}

func symBytes(p *Path, _ *frame, _ *ssa.Function, args []Value) Value {
	name := argStr(args[0])
	n, ok := constInt(args[1])
	if !ok {
		unsupportedf("sym.Bytes with symbolic length")
	}
	out := make(Slice, n)
	for i := range out {
		out[i] = p.newVar(8, fmt.Sprintf("%s[%d]", name, i))
	}
	return out
}

func symString(p *Path, _ *frame, _ *ssa.Function, args []Value) Value {
	name := argStr(args[0])
	n, ok := constInt(args[1])
	if !ok {
		unsupportedf("sym.String with symbolic length")
	}
	out := make([]*Term, n)
	for i := range out {
		out[i] = p.newVar(8, fmt.Sprintf("%s[%d]", name, i))
	}
	return Str{out}
}

// Choose(name, n): a symbolic integer in [0,n) made concrete by forking.
func symChoose(p *Path, _ *frame, _ *ssa.Function, args []Value) Value {
	st := p.st()
	n, ok := constInt(args[1])
	if !ok || n <= 0 {
		unsupportedf("sym.Choose with symbolic or non-positive bound")
	}
	v := p.newVar(64, argStr(args[0]))
	p.assume(st.Bin(OpUlt, v, st.Const(64, uint64(n))))
	for i := 0; i < n-1; i++ {
		if p.branch(st.Eq(v, st.Const(64, uint64(i)))) {
			return st.Const(64, uint64(i))
		}
	}
	p.assume(st.Eq(v, st.Const(64, uint64(n-1))))
	return st.Const(64, uint64(n-1))
}

func symAssume(p *Path, _ *frame, _ *ssa.Function, args []Value) Value {
	p.assume(args[0].(*Term))
	return nil
}

func symAssert(p *Path, _ *frame, _ *ssa.Function, args []Value) Value {
	p.assert(args[0].(*Term), argStr(args[1]), "assert", "")
	return nil
}

func symCover(p *Path, _ *frame, _ *ssa.Function, args []Value) Value {
	p.covers = append(p.covers, argStr(args[0]))
	return nil
}

func symCut(p *Path, _ *frame, _ *ssa.Function, args []Value) Value {
	p.end("cut", argStr(args[0]))
	return nil
}

func symObserve(p *Path, caller *frame, _ *ssa.Function, args []Value) Value {
	label := argStr(args[0])
	var vals []Value
	if s, ok := args[1].(Slice); ok {
		for _, v := range s {
			vals = append(vals, deepCopyObs(v))
		}
	}
	p.obs = append(p.obs, obsRec{label, vals})
	return nil
}

// deepCopyObs snapshots a value (following pointers) at observation time.
func deepCopyObs(v Value) Value {
	switch v := v.(type) {
	case Iface:
		return Iface{T: v.T, V: deepCopyObs(v.V)}
	case Struct:
		c := make(Struct, len(v))
		for i := range v {
			c[i] = deepCopyObs(v[i])
		}
		return c
	case Array:
		c := make(Array, len(v))
		for i := range v {
			c[i] = deepCopyObs(v[i])
		}
		return c
	case Slice:
		if v == nil {
			return v
		}
		c := make(Slice, len(v))
		for i := range v {
			c[i] = deepCopyObs(v[i])
		}
		return c
	}
	return v
}

func symAnd(p *Path, _ *frame, _ *ssa.Function, args []Value) Value {
	return p.st().And(args[0].(*Term), args[1].(*Term))
}
func symOr(p *Path, _ *frame, _ *ssa.Function, args []Value) Value {
	return p.st().Or(args[0].(*Term), args[1].(*Term))
}
func symNot(p *Path, _ *frame, _ *ssa.Function, args []Value) Value {
	return p.st().Not(args[0].(*Term))
}
func symImplies(p *Path, _ *frame, _ *ssa.Function, args []Value) Value {
	return p.st().Or(p.st().Not(args[0].(*Term)), args[1].(*Term))
}
func symIte(p *Path, _ *frame, _ *ssa.Function, args []Value) Value {
	return p.st().Ite(args[0].(*Term), args[1].(*Term), args[2].(*Term))
}
func symEqStr(p *Path, _ *frame, _ *ssa.Function, args []Value) Value {
	return p.st().eqTerm(args[0], args[1])
}
func symConcrete(p *Path, _ *frame, _ *ssa.Function, args []Value) Value {
	t := args[0].(*Term)
	v := p.concretize(t)
	return p.st().Const(t.w, uint64(v))
}
func symIsConcrete(p *Path, _ *frame, _ *ssa.Function, args []Value) Value {
	t := p.simplify(args[0].(*Term))
	return p.st().Bool(t.op == OpConst)
}

// Freeze(what, x): everything reachable from x must not be written from now on.
func symFreeze(p *Path, _ *frame, _ *ssa.Function, args []Value) Value {
	p.freeze(args[1], argStr(args[0]), map[interface{}]bool{})
	return nil
}

// FreezeGlobals(): package-level variables of the code under test (and what
// they reach) must not be written from now on.
func symFreezeGlobals(p *Path, _ *frame, _ *ssa.Function, _ []Value) Value {
	seen := map[interface{}]bool{}
	p.globalsFrozen = true
	for g, c := range p.globals {
		if g.Pkg == nil || strings.Contains(g.Pkg.Pkg.Path(), "/zzverif") || strings.HasPrefix(g.Name(), "zz") || strings.HasPrefix(g.Name(), "init$") {
			continue
		}
		p.freeze(c, "package-level "+g.Pkg.Pkg.Name()+"."+g.Name(), seen)
	}
	return nil
}

func symParam(p *Path, _ *frame, _ *ssa.Function, args []Value) Value {
	name := argStr(args[0])
	if v, ok := p.w.eng.params[name]; ok {
		return p.st().Const(64, uint64(v))
	}
	return args[1]
}

// Fork(b): decide b by forking (same as `if b`), returns the concrete bool.
func symFork(p *Path, _ *frame, _ *ssa.Function, args []Value) Value {
	return p.st().Bool(p.branch(args[0].(*Term)))
}

// ---------------------------------------------------------------- strings.Builder

func sbCell(p *Path, recv Value) *Value {
	ptr := recv.(*Value)
	if ptr == nil {
		p.fail("panic", "nil *strings.Builder")
	}
	s := (*ptr).(Struct)
	return &s[1]
}

func sbAppend(p *Path, recv Value, bs ...*Term) {
	cell := sbCell(p, recv)
	buf, _ := (*cell).(Slice)
	for _, b := range bs {
		buf = append(buf, b)
	}
	*cell = buf
}

func sbWriteString(p *Path, _ *frame, _ *ssa.Function, args []Value) Value {
	s := args[1].(Str)
	sbAppend(p, args[0], s.b...)
	return Tuple{p.st().Const(64, uint64(len(s.b))), Iface{}}
}

func sbWrite(p *Path, _ *frame, _ *ssa.Function, args []Value) Value {
	s, _ := args[1].(Slice)
	bs := make([]*Term, len(s))
	for i, v := range s {
		bs[i] = v.(*Term)
	}
	sbAppend(p, args[0], bs...)
	return Tuple{p.st().Const(64, uint64(len(bs))), Iface{}}
}

func sbWriteByte(p *Path, _ *frame, _ *ssa.Function, args []Value) Value {
	sbAppend(p, args[0], args[1].(*Term))
	return Iface{}
}

func sbWriteRune(p *Path, _ *frame, _ *ssa.Function, args []Value) Value {
	s := p.runeToString(args[1].(*Term), true).(Str)
	sbAppend(p, args[0], s.b...)
	return Tuple{p.st().Const(64, uint64(len(s.b))), Iface{}}
}

func sbString(p *Path, _ *frame, _ *ssa.Function, args []Value) Value {
	cell := sbCell(p, args[0])
	buf, _ := (*cell).(Slice)
	out := make([]*Term, len(buf))
	for i, v := range buf {
		out[i] = v.(*Term)
	}
	return Str{out}
}

func sbLen(p *Path, _ *frame, _ *ssa.Function, args []Value) Value {
	cell := sbCell(p, args[0])
	buf, _ := (*cell).(Slice)
	return p.st().Const(64, uint64(len(buf)))
}

func sbReset(p *Path, _ *frame, _ *ssa.Function, args []Value) Value {
	cell := sbCell(p, args[0])
	*cell = Slice(nil)
	return nil
}

// ---------------------------------------------------------------- package strings

// strFunc1 evaluates natively when every argument is concrete and otherwise
// runs the byte-loop model of the same name from package sym symbolically.
func strFunc1(model string, native func([]string) interface{}) intrinsic {
	return func(p *Path, caller *frame, fn *ssa.Function, args []Value) Value {
		var cs []string
		all := true
		for _, a := range args {
			s, ok := a.(Str).concrete()
			if !ok {
				all = false
				break
			}
			cs = append(cs, s)
		}
		if all {
			switch r := native(cs).(type) {
			case string:
				return strConst(p.st(), r)
			case bool:
				return p.st().Bool(r)
			case []string:
				out := make(Slice, len(r))
				for i, s := range r {
					out[i] = strConst(p.st(), s)
				}
				return out
			}
		}
		mf := p.w.eng.symPkg.Func(model)
		if mf == nil {
			unsupportedf("no model %s for symbolic call of %s", model, fn)
		}
		p.w.eng.noteStub(fn.String() + " -> sym." + model)
		return p.callFunction(caller, mf, args, nil, nil)
	}
}

func strJoin(p *Path, _ *frame, _ *ssa.Function, args []Value) Value {
	elems := args[0].(Slice)
	sep := args[1].(Str)
	var out []*Term
	for i, e := range elems {
		if i > 0 {
			out = append(out, sep.b...)
		}
		out = append(out, e.(Str).b...)
	}
	return Str{out}
}

func strRepeat(p *Path, _ *frame, _ *ssa.Function, args []Value) Value {
	s := args[0].(Str)
	n, ok := constInt(args[1])
	if !ok {
		n = p.concretize(args[1].(*Term))
	}
	if n < 0 {
		p.fail("panic", "strings: negative Repeat count")
	}
	if n*len(s.b) > 1<<16 {
		p.end("cut", "strings.Repeat result too long")
	}
	var out []*Term
	for i := 0; i < n; i++ {
		out = append(out, s.b...)
	}
	return Str{out}
}

// ---------------------------------------------------------------- fmt / errors / strconv

// mapsClone models maps.Clone / the runtime's maps.clone: a shallow copy.
func mapsClone(p *Path, _ *frame, _ *ssa.Function, args []Value) Value {
	var m *Map
	switch x := args[0].(type) {
	case *Map:
		m = x
	case Iface:
		m, _ = x.V.(*Map)
	}
	if m == nil {
		return (*Map)(nil)
	}
	c := &Map{}
	for i := range m.keys {
		c.keys = append(c.keys, copyVal(m.keys[i]))
		c.vals = append(c.vals, copyVal(m.vals[i]))
	}
	if _, ok := args[0].(Iface); ok {
		return Iface{T: args[0].(Iface).T, V: c}
	}
	return c
}

func (p *Path) mkError(msg Str) Value {
	e := p.w.eng
	cell := new(Value)
	*cell = Struct{msg}
	return Iface{T: e.errPtrType, V: cell}
}

// strconvErr builds the *strconv.NumError that ParseInt / ParseFloat return,
// wrapping the package's ErrRange or ErrSyntax sentinel (so that code under
// test can tell them apart with == or errors.Is).
func (p *Path) strconvErr(fn, num string, rng bool) Value {
	e := p.w.eng
	pkg := e.prog.ImportedPackage("strconv")
	if pkg == nil || pkg.Type("NumError") == nil {
		return p.mkError(strConst(p.st(), "strconv: "+fn+": parsing "+strconv.Quote(num)))
	}
	name := "ErrSyntax"
	if rng {
		name = "ErrRange"
	}
	sentinel := *p.global(pkg.Var(name))
	cell := new(Value)
	*cell = Struct{strConst(p.st(), fn), strConst(p.st(), num), sentinel}
	return Iface{T: types.NewPointer(pkg.Type("NumError").Type()), V: cell}
}

// errorsIs models errors.Is for the error values the executor creates:
// identity, and unwrapping of *strconv.NumError.
func errorsIs(p *Path, _ *frame, _ *ssa.Function, args []Value) Value {
	st := p.st()
	err, _ := args[0].(Iface)
	target, _ := args[1].(Iface)
	for i := 0; i < 8; i++ {
		if err.T == nil {
			return st.Bool(target.T == nil)
		}
		if eq := st.eqTerm(err, target); eq.op == OpConst && eq.c != 0 {
			return st.True
		}
		pt, ok := err.T.(*types.Pointer)
		if !ok {
			return st.False
		}
		nt, ok := pt.Elem().(*types.Named)
		if !ok || nt.Obj().Name() != "NumError" || nt.Obj().Pkg() == nil || nt.Obj().Pkg().Path() != "strconv" {
			return st.False
		}
		cell := err.V.(*Value)
		if cell == nil {
			return st.False
		}
		inner, _ := (*cell).(Struct)[2].(Iface)
		err = inner
	}
	return st.False
}

func errorsNew(p *Path, _ *frame, _ *ssa.Function, args []Value) Value {
	return p.mkError(args[0].(Str))
}

// formatArg renders one operand for %v / %s / %d / %q.
func (p *Path) formatArg(caller *frame, verb byte, a Value) []*Term {
	st := p.st()
	lit := func(s string) []*Term { return strConst(st, s).b }
	if i, ok := a.(Iface); ok {
		if i.T == nil {
			return lit("<nil>")
		}
		// Stringer / error
		for _, name := range []string{"Error", "String"} {
			if verb == 'd' {
				break
			}
			ms := p.w.eng.prog.MethodSets.MethodSet(i.T)
			for k := 0; k < ms.Len(); k++ {
				sel := ms.At(k)
				if sel.Obj().Name() != name {
					continue
				}
				sig := sel.Type().(*types.Signature)
				if sig.Params().Len() != 0 || sig.Results().Len() != 1 || !isString(sig.Results().At(0).Type()) {
					continue
				}
				fn := p.w.eng.prog.MethodValue(sel)
				r := p.callFunction(caller, fn, []Value{i.V}, nil, nil)
				return r.(Str).b
			}
		}
		return p.formatTyped(caller, verb, i.T, i.V)
	}
	return lit("?")
}

func (p *Path) formatTyped(caller *frame, verb byte, t types.Type, v Value) []*Term {
	st := p.st()
	lit := func(s string) []*Term { return strConst(st, s).b }
	switch x := v.(type) {
	case *Term:
		x = p.simplify(x)
		if x.op != OpConst {
			return lit("<sym>")
		}
		if x.w == 0 {
			return lit(strconv.FormatBool(x.c != 0))
		}
		_, signed, _ := intInfo(t)
		if signed {
			return lit(strconv.FormatInt(sext(x.c, x.w), 10))
		}
		return lit(strconv.FormatUint(x.c, 10))
	case Str:
		if verb == 'q' {
			if cs, ok := x.concrete(); ok {
				return lit(strconv.Quote(cs))
			}
			out := lit("\"")
			out = append(out, x.b...)
			return append(out, lit("\"")...)
		}
		return x.b
	case Struct:
		out := lit("{")
		stt, _ := t.Underlying().(*types.Struct)
		for i, f := range x {
			if i > 0 {
				out = append(out, lit(" ")...)
			}
			var ft types.Type
			if stt != nil {
				ft = stt.Field(i).Type()
			}
			out = append(out, p.formatTyped(caller, 'v', ft, f)...)
		}
		return append(out, lit("}")...)
	case Slice:
		out := lit("[")
		var et types.Type
		if sl, ok := t.Underlying().(*types.Slice); ok {
			et = sl.Elem()
		}
		for i, f := range x {
			if i > 0 {
				out = append(out, lit(" ")...)
			}
			out = append(out, p.formatTyped(caller, 'v', et, f)...)
		}
		return append(out, lit("]")...)
	case Iface:
		return p.formatArg(caller, verb, x)
	case *Value:
		return lit("0xptr")
	}
	return lit("?")
}

func (p *Path) sprintf(caller *frame, format Str, args Slice) Str {
	fs, ok := format.concrete()
	if !ok {
		unsupportedf("symbolic format string")
	}
	var out []*Term
	st := p.st()
	ai := 0
	for i := 0; i < len(fs); i++ {
		c := fs[i]
		if c != '%' || i+1 >= len(fs) {
			out = append(out, st.Const(8, uint64(c)))
			continue
		}
		i++
		verb := fs[i]
		if verb == '%' {
			out = append(out, st.Const(8, '%'))
			continue
		}
		if ai >= len(args) {
			out = append(out, strConst(st, "%!"+string(verb)+"(MISSING)").b...)
			continue
		}
		out = append(out, p.formatArg(caller, verb, args[ai])...)
		ai++
	}
	return Str{out}
}

func fmtSprintf(p *Path, caller *frame, _ *ssa.Function, args []Value) Value {
	a, _ := args[1].(Slice)
	return p.sprintf(caller, args[0].(Str), a)
}

func fmtErrorf(p *Path, caller *frame, _ *ssa.Function, args []Value) Value {
	a, _ := args[1].(Slice)
	return p.mkError(p.sprintf(caller, args[0].(Str), a))
}

func fmtSprint(p *Path, caller *frame, _ *ssa.Function, args []Value) Value {
	a, _ := args[0].(Slice)
	var out []*Term
	for _, x := range a {
		out = append(out, p.formatArg(caller, 'v', x)...)
	}
	return Str{out}
}

func scParseInt(p *Path, caller *frame, fn *ssa.Function, args []Value) Value {
	st := p.st()
	s, ok := args[0].(Str).concrete()
	base, ok2 := constInt(args[1])
	bits, ok3 := constInt(args[2])
	if ok && ok2 && ok3 {
		v, err := strconv.ParseInt(s, base, bits)
		if err != nil {
			ne, _ := err.(*strconv.NumError)
			return Tuple{st.Const(64, uint64(v)), p.strconvErr("ParseInt", s, ne != nil && ne.Err == strconv.ErrRange)}
		}
		return Tuple{st.Const(64, uint64(v)), Iface{}}
	}
	mf := p.w.eng.symPkg.Func("ModelParseIntOK")
	if mf == nil {
		unsupportedf("strconv.ParseInt on symbolic input")
	}
	p.w.eng.noteStub("strconv.ParseInt -> sym.ModelParseIntOK (error result only)")
	okT := p.callFunction(caller, mf, []Value{args[0]}, nil, nil).(*Term)
	if p.branch(okT) {
		return Tuple{p.newVar(64, "parseint.value"), Iface{}}
	}
	return Tuple{st.Const(64, 0), p.strconvErr("ParseInt", "<symbolic>", false)}
}

func scParseFloat(p *Path, caller *frame, fn *ssa.Function, args []Value) Value {
	st := p.st()
	s, ok := args[0].(Str).concrete()
	if ok {
		_, err := strconv.ParseFloat(s, 64)
		// floats are not modelled: only the error result is meaningful
		if err != nil {
			ne, _ := err.(*strconv.NumError)
			return Tuple{st.Const(64, 0), p.strconvErr("ParseFloat", s, ne != nil && ne.Err == strconv.ErrRange)}
		}
		return Tuple{st.Const(64, 0), Iface{}}
	}
	mf := p.w.eng.symPkg.Func("ModelParseFloatOK")
	if mf == nil {
		unsupportedf("strconv.ParseFloat on symbolic input")
	}
	p.w.eng.noteStub("strconv.ParseFloat -> sym.ModelParseFloatOK (error result only)")
	okT := p.callFunction(caller, mf, []Value{args[0]}, nil, nil).(*Term)
	if p.branch(okT) {
		return Tuple{st.Const(64, 0), Iface{}}
	}
	return Tuple{st.Const(64, 0), p.strconvErr("ParseFloat", "<symbolic>", false)}
}

func scItoa(p *Path, _ *frame, _ *ssa.Function, args []Value) Value {
	t := p.simplify(args[0].(*Term))
	if t.op != OpConst {
		v := p.concretize(t)
		return strConst(p.st(), strconv.Itoa(v))
	}
	return strConst(p.st(), strconv.Itoa(int(sext(t.c, t.w))))
}

func scQuote(p *Path, _ *frame, _ *ssa.Function, args []Value) Value {
	s, ok := args[0].(Str).concrete()
	if !ok {
		unsupportedf("strconv.Quote of symbolic string")
	}
	return strConst(p.st(), strconv.Quote(s))
}

// ---------------------------------------------------------------- rendering for Observe

func renderValue(v Value, m Model) string {
	if i, ok := v.(Iface); ok {
		if i.T == nil {
			return "nil"
		}
		return renderTyped(i.T, i.V, m)
	}
	return renderTyped(nil, v, m)
}

func renderTyped(t types.Type, v Value, m Model) string {
	switch x := v.(type) {
	case *Term:
		val := Eval(x, m, nil)
		if x.w == 0 {
			return strconv.FormatBool(val != 0)
		}
		signed := true
		if t != nil {
			_, signed, _ = intInfo(t)
		}
		if signed {
			return strconv.FormatInt(sext(val, x.w), 10)
		}
		return strconv.FormatUint(val, 10)
	case Str:
		return strconv.Quote(x.eval(m))
	case Slice:
		var et types.Type
		if t != nil {
			if sl, ok := t.Underlying().(*types.Slice); ok {
				et = sl.Elem()
				if b, ok := et.Underlying().(*types.Basic); ok && b.Kind() == types.Uint8 {
					var sb strings.Builder
					for _, e := range x {
						sb.WriteByte(byte(Eval(e.(*Term), m, nil)))
					}
					return strconv.Quote(sb.String())
				}
			}
		}
		parts := make([]string, len(x))
		for i, e := range x {
			parts[i] = renderTyped(et, e, m)
		}
		return "[" + strings.Join(parts, " ") + "]"
	case Array:
		var et types.Type
		if t != nil {
			if a, ok := t.Underlying().(*types.Array); ok {
				et = a.Elem()
			}
		}
		parts := make([]string, len(x))
		for i, e := range x {
			parts[i] = renderTyped(et, e, m)
		}
		return "[" + strings.Join(parts, " ") + "]"
	case Struct:
		var stt *types.Struct
		if t != nil {
			stt, _ = t.Underlying().(*types.Struct)
		}
		parts := make([]string, len(x))
		for i, e := range x {
			var ft types.Type
			if stt != nil {
				ft = stt.Field(i).Type()
			}
			parts[i] = renderTyped(ft, e, m)
		}
		return "{" + strings.Join(parts, " ") + "}"
	case Iface:
		return renderValue(x, m)
	case *Value:
		if x == nil {
			return "nil"
		}
		var et types.Type
		if t != nil {
			if pt, ok := t.Underlying().(*types.Pointer); ok {
				et = pt.Elem()
			}
		}
		return "&" + renderTyped(et, *x, m)
	case nil:
		return "nil"
	}
	return fmt.Sprintf("<%T>", v)
}
