package main

// SMT solver over a pipe (SMT-LIB2 text). Definitions are kept at assertion
// level 0; every query is push / assert* / check-sat / [get-value] / pop.

import (
	"bufio"
	"fmt"
	"io"
	"os"
	"os/exec"
	"strconv"
	"strings"
	"time"
)

type Solver struct {
	name     string
	cmd      *exec.Cmd
	in       *bufio.Writer
	inRaw    io.WriteCloser
	out      *bufio.Reader
	lines    chan string
	limit    time.Duration // wall-clock limit per answer; exceeding it kills and restarts the solver
	Timeouts int
	defined  map[int32]bool
	nDef     int

	Queries, Sat, Unsat, Unknown int
	Errors                       int
	Time                         time.Duration
	lastErr                      string
}

var solverCmds = map[string][]string{
	"z3":    {"z3", "-in", "-smt2"},
	"z3new": {"z3-new", "-in", "-smt2"},
	"cvc5":  {"cvc5", "--incremental", "--lang=smt2", "--produce-models", "-q"},
}

func NewSolver(name string) (*Solver, error) {
	args, ok := solverCmds[name]
	if !ok {
		return nil, fmt.Errorf("unknown solver %q", name)
	}
	s := &Solver{name: name}
	if err := s.start(args); err != nil {
		return nil, err
	}
	return s, nil
}

func (s *Solver) start(args []string) error {
	s.cmd = exec.Command(args[0], args[1:]...)
	w, err := s.cmd.StdinPipe()
	if err != nil {
		return err
	}
	r, err := s.cmd.StdoutPipe()
	if err != nil {
		return err
	}
	s.cmd.Stderr = nil
	if err := s.cmd.Start(); err != nil {
		return err
	}
	s.inRaw = w
	var sink io.Writer = w
	if tp := os.Getenv("XSYM_TRACE"); tp != "" {
		f, err := os.OpenFile(fmt.Sprintf("%s.%d", tp, s.cmd.Process.Pid), os.O_CREATE|os.O_WRONLY|os.O_TRUNC, 0o644)
		if err == nil {
			sink = io.MultiWriter(w, f)
		}
	}
	s.in = bufio.NewWriterSize(sink, 1<<16)
	s.out = bufio.NewReaderSize(r, 1<<16)
	s.lines = make(chan string, 64)
	go func(rd *bufio.Reader, ch chan string) {
		for {
			line, err := rd.ReadString('\n')
			if line != "" {
				ch <- line
			}
			if err != nil {
				close(ch)
				return
			}
		}
	}(s.out, s.lines)
	if s.limit == 0 {
		s.limit = 150 * time.Second
	}
	s.defined = map[int32]bool{}
	s.nDef = 0
	if s.name == "cvc5" {
		fmt.Fprintln(s.in, "(set-logic ALL)")
	}
	fmt.Fprintln(s.in, "(set-option :produce-models true)")
	if strings.HasPrefix(s.name, "z3") {
		fmt.Fprintln(s.in, "(set-option :timeout 60000)")
	} else {
		fmt.Fprintln(s.in, "(set-option :tlimit-per 60000)")
	}
	return nil
}

func (s *Solver) Close() {
	if s.cmd != nil {
		fmt.Fprintln(s.in, "(exit)")
		s.in.Flush()
		s.inRaw.Close()
		s.cmd.Wait()
		s.cmd = nil
	}
}

// Restart drops all definitions (used to bound solver memory).
func (s *Solver) Restart() error {
	s.Close()
	return s.start(solverCmds[s.name])
}

// SetLimit sets the wall-clock limit per answer.
func (s *Solver) SetLimit(d time.Duration) { s.limit = d }

// define makes sure t (and its sub-terms) are known to the solver.
func (s *Solver) define(t *Term) {
	if t.op == OpConst || s.defined[t.id] {
		return
	}
	if t.op == OpVar {
		fmt.Fprintf(s.in, "(declare-const |%s| %s)\n", t.name, sortOf(t.w))
		s.defined[t.id] = true
		s.nDef++
		return
	}
	for i := 0; i < int(t.n); i++ {
		s.define(t.a[i])
	}
	fmt.Fprintf(s.in, "(define-fun t%d () %s %s)\n", t.id, sortOf(t.w), smtDef(t))
	s.defined[t.id] = true
	s.nDef++
}

type Result int

const (
	RSat Result = iota
	RUnsat
	RUnknown
)

func (r Result) String() string { return [...]string{"sat", "unsat", "unknown"}[r] }

// Check decides the conjunction of cs. If vars != nil and the result is sat,
// the model restricted to vars is returned.
func (s *Solver) Check(cs []*Term, vars []*Term) (Result, Model) {
	t0 := time.Now()
	defer func() { s.Time += time.Since(t0) }()
	s.Queries++
	if s.cmd == nil {
		if err := s.start(solverCmds[s.name]); err != nil {
			s.Errors++
			s.lastErr = err.Error()
			s.Unknown++
			return RUnknown, nil
		}
	}
	for _, c := range cs {
		s.define(c)
	}
	for _, v := range vars {
		s.define(v)
	}
	fmt.Fprintln(s.in, "(push 1)")
	for _, c := range cs {
		fmt.Fprintf(s.in, "(assert %s)\n", smtName(c))
	}
	fmt.Fprintln(s.in, "(check-sat)")
	s.in.Flush()
	res := RUnknown
	sawErr := false
	for {
		line, err := s.readLine()
		if err == errSolverTimeout {
			s.Timeouts++
			s.lastErr = err.Error()
			s.kill()
			s.Unknown++
			return RUnknown, nil
		}
		if err != nil {
			s.Errors++
			s.lastErr = err.Error()
			break
		}
		if line == "sat" {
			res = RSat
			break
		} else if line == "unsat" {
			res = RUnsat
			break
		} else if line == "unknown" || line == "timeout" {
			break
		}
		// anything else (e.g. an "(error ...)" line for an earlier command)
		// makes this query inconclusive, but we keep reading to stay in sync
		sawErr = true
		s.Errors++
		s.lastErr = line
	}
	if sawErr {
		res = RUnknown
	}
	var m Model
	if res == RSat && len(vars) > 0 {
		var sb strings.Builder
		sb.WriteString("(get-value (")
		for _, v := range vars {
			sb.WriteString(smtName(v))
			sb.WriteString(" ")
		}
		sb.WriteString("))\n")
		s.in.WriteString(sb.String())
		s.in.Flush()
		txt, err := s.readSexp()
		if err != nil {
			s.Errors++
			s.lastErr = err.Error()
			res = RUnknown
		} else {
			m = parseValues(txt, vars)
			if m == nil {
				s.Errors++
				s.lastErr = "cannot parse model: " + txt
				res = RUnknown
			}
		}
	}
	fmt.Fprintln(s.in, "(pop 1)")
	if d := time.Since(t0); d > 300*time.Millisecond {
		fmt.Fprintf(s.in, "; SLOW %v %v\n", d, res)
	}
	s.in.Flush()
	switch res {
	case RSat:
		s.Sat++
	case RUnsat:
		s.Unsat++
	default:
		s.Unknown++
	}
	return res, m
}

var errSolverTimeout = fmt.Errorf("solver wall-clock limit exceeded")

func (s *Solver) rawLine() (string, error) {
	select {
	case line, ok := <-s.lines:
		if !ok {
			return "", io.EOF
		}
		return line, nil
	case <-time.After(s.limit):
		return "", errSolverTimeout
	}
}

func (s *Solver) readLine() (string, error) {
	for {
		line, err := s.rawLine()
		if err != nil {
			return "", err
		}
		line = strings.TrimSpace(line)
		if line == "" {
			continue
		}
		return line, nil
	}
}

// readSexp reads one balanced s-expression (possibly over several lines).
func (s *Solver) readSexp() (string, error) {
	var sb strings.Builder
	depth := 0
	started := false
	inBar := false
	for {
		line, err := s.rawLine()
		if err != nil {
			return "", err
		}
		sb.WriteString(line)
		for i := 0; i < len(line); i++ {
			b := line[i]
			if inBar {
				if b == '|' {
					inBar = false
				}
				continue
			}
			switch b {
			case '|':
				inBar = true
			case '(':
				depth++
				started = true
			case ')':
				depth--
			}
		}
		if started && depth <= 0 {
			return sb.String(), nil
		}
	}
}

// kill terminates a solver that does not answer; the next query restarts it.
func (s *Solver) kill() {
	if s.cmd != nil && s.cmd.Process != nil {
		s.cmd.Process.Kill()
		s.inRaw.Close()
		s.cmd.Wait()
	}
	s.cmd = nil
}

// parseValues parses "((|a| #x00) (|b| true) ...)" in the order of vars.
func parseValues(txt string, vars []*Term) Model {
	m := Model{}
	i := 0
	n := len(txt)
	skipWS := func() {
		for i < n && (txt[i] == ' ' || txt[i] == '\n' || txt[i] == '\t' || txt[i] == '\r') {
			i++
		}
	}
	skipWS()
	if i >= n || txt[i] != '(' {
		return nil
	}
	i++
	for _, v := range vars {
		skipWS()
		if i >= n || txt[i] != '(' {
			return nil
		}
		i++
		skipWS()
		// name
		if i < n && txt[i] == '|' {
			j := strings.IndexByte(txt[i+1:], '|')
			if j < 0 {
				return nil
			}
			i += j + 2
		} else {
			for i < n && txt[i] != ' ' && txt[i] != '\n' {
				i++
			}
		}
		skipWS()
		// value
		j := i
		if i < n && txt[i] == '(' {
			// e.g. (_ bv5 8)
			d := 0
			for j < n {
				if txt[j] == '(' {
					d++
				} else if txt[j] == ')' {
					d--
					if d == 0 {
						j++
						break
					}
				}
				j++
			}
		} else {
			for j < n && txt[j] != ')' && txt[j] != ' ' && txt[j] != '\n' {
				j++
			}
		}
		val := txt[i:j]
		i = j
		skipWS()
		if i >= n || txt[i] != ')' {
			return nil
		}
		i++
		var x uint64
		switch {
		case val == "true":
			x = 1
		case val == "false":
			x = 0
		case strings.HasPrefix(val, "#x"):
			u, err := strconv.ParseUint(val[2:], 16, 64)
			if err != nil {
				return nil
			}
			x = u
		case strings.HasPrefix(val, "#b"):
			u, err := strconv.ParseUint(val[2:], 2, 64)
			if err != nil {
				return nil
			}
			x = u
		case strings.HasPrefix(val, "(_ bv"):
			f := strings.Fields(val[5:])
			u, err := strconv.ParseUint(f[0], 10, 64)
			if err != nil {
				return nil
			}
			x = u
		default:
			return nil
		}
		m[v.name] = x
	}
	return m
}
