package main

// xsym — bounded symbolic executor for Go SSA with an SMT back end.
//
//   xsym -repo /repo -overlay /verif/harness/overlay -harness pkg.Func[,pkg.Func...] -out result.json

import (
	"encoding/json"
	"flag"
	"fmt"
	"os"
	"path/filepath"
	"sort"
	"strings"
	"sync"
	"time"

	"golang.org/x/tools/go/ssa"
)

type Output struct {
	Harnesses    []string           `json:"harnesses"`
	Ends         map[string]int     `json:"ends"`
	PathsDone    map[string]int     `json:"paths_done"`
	Covers       map[string]int     `json:"covers"`
	Violations   []Violation        `json:"violations"`
	ViolCount    map[string]int     `json:"violation_counts"`
	Witnesses    []Witness          `json:"witnesses"`
	Unsupported  map[string]int     `json:"unsupported"`
	Inconclusive []string           `json:"inconclusive"`
	Stubs        []string           `json:"stubs"`
	Functions    []string           `json:"functions_encoded"`
	Stats        map[string]float64 `json:"stats"`
	Aux          map[string]float64 `json:"aux_solver_queries"`
	TimedOut     bool               `json:"timed_out"`
	WallS        float64            `json:"wall_s"`
	LoadS        float64            `json:"load_s"`
	Bounds       map[string]int     `json:"bounds"`
}

func readOverlay(repo, dir string) (map[string][]byte, map[string]string, error) {
	ov := map[string][]byte{}
	repl := map[string]string{}
	if dir == "" {
		return ov, repl, nil
	}
	if abs, err := filepath.Abs(dir); err == nil {
		dir = abs
	}
	err := filepath.Walk(dir, func(path string, info os.FileInfo, err error) error {
		if err != nil || info.IsDir() || !strings.HasSuffix(path, ".go") {
			return err
		}
		rel, _ := filepath.Rel(dir, path)
		data, err := os.ReadFile(path)
		if err != nil {
			return err
		}
		ov[filepath.Join(repo, rel)] = data
		repl[filepath.Join(repo, rel)] = path
		return nil
	})
	return ov, repl, err
}

type redirFlag map[string]string

func (p redirFlag) String() string { return fmt.Sprint(map[string]string(p)) }
func (p redirFlag) Set(s string) error {
	i := strings.Index(s, "=")
	if i < 0 {
		return fmt.Errorf("want from=to")
	}
	p[s[:i]] = s[i+1:]
	return nil
}

type paramFlag map[string]int

func (p paramFlag) String() string { return fmt.Sprint(map[string]int(p)) }
func (p paramFlag) Set(s string) error {
	i := strings.Index(s, "=")
	if i < 0 {
		return fmt.Errorf("want name=value")
	}
	var v int
	if _, err := fmt.Sscan(s[i+1:], &v); err != nil {
		return err
	}
	p[s[:i]] = v
	return nil
}

func main() {
	redirects := redirFlag{}
	flag.Var(redirects, "redirect", "call redirection pkg.Func=pkg.Func (repeatable): modular stubs")
	params := paramFlag{}
	flag.Var(params, "param", "harness parameter name=value (repeatable)")
	repo := flag.String("repo", "/repo", "repository under test")
	ovDir := flag.String("overlay", "", "directory mirrored over the repository")
	harness := flag.String("harness", "", "comma separated pkgpath.Func list")
	out := flag.String("out", "", "result file (JSON)")
	workers := flag.Int("workers", 16, "worker count")
	maxSteps := flag.Int("max-steps", 2000000, "instruction budget per path")
	maxDepth := flag.Int("max-depth", 300, "call depth bound")
	cross := flag.Bool("cross", false, "re-decide assertion queries with z3 5.x and cvc5")
	rev := flag.Bool("reverse-maps", false, "iterate maps in reverse insertion order")
	timeout := flag.Duration("timeout", 0, "overall deadline")
	maxViol := flag.Int("max-viol", 100, "stored counterexamples per assertion label")
	maxWit := flag.Int("max-witness", 40, "stored witnesses per harness")
	writeOv := flag.String("write-overlay", "", "write a go build -overlay file and exit")
	noSum := flag.Bool("no-summaries", false, "disable pure function summaries")
	flag.Parse()

	ov, repl, err := readOverlay(*repo, *ovDir)
	if err != nil {
		fmt.Fprintln(os.Stderr, err)
		os.Exit(3)
	}
	if *writeOv != "" {
		data, _ := json.MarshalIndent(map[string]interface{}{"Replace": repl}, "", " ")
		if err := os.WriteFile(*writeOv, data, 0o644); err != nil {
			fmt.Fprintln(os.Stderr, err)
			os.Exit(3)
		}
		return
	}
	t0 := time.Now()
	prog, _, err := loadProgram(*repo, ov, []string{"./..."})
	if err != nil {
		fmt.Fprintln(os.Stderr, "load:", err)
		os.Exit(3)
	}
	loadS := time.Since(t0).Seconds()

	e := &Engine{
		prog: prog, maxSteps: *maxSteps, maxDepth: *maxDepth, crossCheck: *cross, reverseMaps: *rev,
		params: params, maxViol: *maxViol, maxWitness: *maxWit, noSummaries: *noSum,
		stubs: map[string]bool{}, funcsSeen: map[string]bool{}, violCount: map[string]int{},
		witCount: map[string]int{}, unsupported: map[string]int{}, ends: map[string]int{},
		pathsDone: map[string]int{}, coverCount: map[string]int{},
	}
	e.cond = sync.NewCond(&e.mu)
	if *cross {
		e.auxSolvers = []string{"z3new", "cvc5"}
	}
	if *timeout > 0 {
		e.deadline = time.Now().Add(*timeout)
	}
	for _, p := range prog.AllPackages() {
		if p.Pkg.Path() == symPath {
			e.symPkg = p
		}
	}
	if e.symPkg == nil {
		fmt.Fprintln(os.Stderr, "package", symPath, "not loaded (overlay missing?)")
		os.Exit(3)
	}
	if t := e.symPkg.Type("Err"); t != nil {
		e.errPtrType = typesPointer(t)
	}

	e.redirects = map[string]*ssa.Function{}
	for from, to := range redirects {
		i := strings.LastIndex(to, ".")
		pkg := prog.ImportedPackage(to[:i])
		if pkg == nil || pkg.Func(to[i+1:]) == nil {
			fmt.Fprintln(os.Stderr, "redirect target not found:", to)
			os.Exit(3)
		}
		e.redirects[from] = pkg.Func(to[i+1:])
		e.stubs[from+" -> "+to+" (modular stub)"] = true
	}

	hs := map[string]*ssa.Function{}
	var names []string
	for _, h := range strings.Split(*harness, ",") {
		h = strings.TrimSpace(h)
		if h == "" {
			continue
		}
		i := strings.LastIndex(h, ".")
		pkg := prog.ImportedPackage(h[:i])
		if pkg == nil {
			fmt.Fprintln(os.Stderr, "no package", h[:i])
			os.Exit(3)
		}
		fn := pkg.Func(h[i+1:])
		if fn == nil {
			fmt.Fprintln(os.Stderr, "no function", h)
			os.Exit(3)
		}
		hs[h] = fn
		names = append(names, h)
		e.work = append(e.work, &workItem{harness: h})
	}
	// process harnesses in the order given (stack)
	for i, j := 0, len(e.work)-1; i < j; i, j = i+1, j-1 {
		e.work[i], e.work[j] = e.work[j], e.work[i]
	}

	var wg sync.WaitGroup
	for i := 0; i < *workers; i++ {
		wg.Add(1)
		go e.worker(i, hs, &wg)
	}
	wg.Wait()

	o := Output{
		Harnesses: names, Ends: e.ends, PathsDone: e.pathsDone, Covers: e.coverCount,
		Violations: e.violations, ViolCount: e.violCount, Witnesses: e.witnesses,
		Unsupported: e.unsupported, Inconclusive: e.unknowns, TimedOut: e.timedOut,
		WallS: time.Since(t0).Seconds(), LoadS: loadS,
		Bounds: map[string]int{"max_steps_per_path": *maxSteps, "max_call_depth": *maxDepth},
		Stats: map[string]float64{
			"paths": float64(agg.Paths), "forks": float64(agg.Forks),
			"fork_queries": float64(agg.ForkQueries), "assume_queries": float64(agg.AssumeQueries),
			"assert_queries": float64(agg.AssertQueries), "assert_unsat": float64(agg.AssertUnsat),
			"assert_trivially_true": float64(agg.AssertTrivial),
			"instructions":          float64(agg.Steps),
			"solver_queries":        float64(agg.SolverQueries), "solver_sat": float64(agg.SolverSat),
			"solver_unsat": float64(agg.SolverUnsat), "solver_unknown": float64(agg.SolverUnknown),
			"solver_errors": float64(agg.SolverErrors), "solver_time_s": agg.SolverTime.Seconds(),
			"query_cache_hits":            float64(agg.CacheHits),
			"cross_checks_without_answer": float64(agg.CrossNoAnswer),
			"cross_checks":                float64(agg.Cross), "cross_disagreements": float64(agg.CrossDisagree),
		},
		Aux: map[string]float64{},
	}
	for k, v := range agg.AuxQueries {
		o.Aux[k+"_queries"] = float64(v)
		o.Aux[k+"_time_s"] = agg.AuxTime[k].Seconds()
	}
	for s := range e.stubs {
		o.Stubs = append(o.Stubs, s)
	}
	sort.Strings(o.Stubs)
	for f := range e.funcsSeen {
		o.Functions = append(o.Functions, f)
	}
	sort.Strings(o.Functions)
	if o.Violations == nil {
		o.Violations = []Violation{}
	}
	if o.Witnesses == nil {
		o.Witnesses = []Witness{}
	}
	if o.Inconclusive == nil {
		o.Inconclusive = []string{}
	}
	data, _ := json.MarshalIndent(o, "", " ")
	if *out != "" {
		if err := os.WriteFile(*out, data, 0o644); err != nil {
			fmt.Fprintln(os.Stderr, err)
			os.Exit(3)
		}
	} else {
		os.Stdout.Write(data)
	}
	fmt.Fprintf(os.Stderr, "xsym: %d paths, %d violations stored, ends=%v, %.1fs (load %.1fs, solver %.1fs cpu)\n",
		agg.Paths, len(e.violations), e.ends, o.WallS, loadS, agg.SolverTime.Seconds())
}
