package main

// Symbolic interpreter for go/ssa (structure follows go/ssa/interp).

import (
	"fmt"
	"go/constant"
	"go/token"
	"go/types"
	"strings"

	"golang.org/x/tools/go/ssa"
)

type fnInfo struct {
	fn    *ssa.Function
	index map[ssa.Value]int
	n     int
	pure  int8 // 1: loop-free scalar function that can be summarised
	order []*ssa.BasicBlock
}

type deferred struct {
	fn   Value
	args []Value
	tail *deferred
}

type frame struct {
	p      *Path
	caller *frame
	fn     *ssa.Function
	info   *fnInfo
	env    []Value
	block  *ssa.BasicBlock
	prev   *ssa.BasicBlock
	defers *deferred
	result Value
	done   bool
}

func (e *Engine) info(fn *ssa.Function) *fnInfo {
	if v, ok := e.fnInfos.Load(fn); ok {
		return v.(*fnInfo)
	}
	fi := &fnInfo{fn: fn, index: map[ssa.Value]int{}}
	n := 0
	for _, p := range fn.Params {
		fi.index[p] = n
		n++
	}
	for _, p := range fn.FreeVars {
		fi.index[p] = n
		n++
	}
	for _, b := range fn.Blocks {
		for _, ins := range b.Instrs {
			if v, ok := ins.(ssa.Value); ok {
				fi.index[v] = n
				n++
			}
		}
	}
	fi.n = n
	fi.pure = e.classifyPure(fn, fi)
	v, _ := e.fnInfos.LoadOrStore(fn, fi)
	return v.(*fnInfo)
}

func (fr *frame) get(v ssa.Value) Value {
	switch v := v.(type) {
	case *ssa.Const:
		return fr.p.w.constValue(v)
	case *ssa.Global:
		return fr.p.global(v)
	case *ssa.Function:
		return v
	case *ssa.Builtin:
		return v
	}
	i, ok := fr.info.index[v]
	if !ok {
		unsupportedf("no value for %T %s in %s", v, v.Name(), fr.fn)
	}
	r := fr.env[i]
	if r == nil {
		unsupportedf("unset value %s in %s", v.Name(), fr.fn)
	}
	return r
}

func (fr *frame) set(v ssa.Value, x Value) {
	fr.env[fr.info.index[v]] = x
}

func (p *Path) global(g *ssa.Global) *Value {
	if c, ok := p.globals[g]; ok {
		return c
	}
	cell := new(Value)
	*cell = p.st().zero(g.Type().(*types.Pointer).Elem())
	if g.Pkg != nil && g.Pkg.Pkg.Path() == "strconv" && (g.Name() == "ErrRange" || g.Name() == "ErrSyntax") {
		// package strconv is not initialised by the executor: give its two
		// sentinel errors distinct identities
		msg := "value out of range"
		if g.Name() == "ErrSyntax" {
			msg = "invalid syntax"
		}
		*cell = p.mkError(strConst(p.st(), msg))
	}
	p.globals[g] = cell
	if p.globalsFrozen && g.Pkg != nil && !strings.Contains(g.Pkg.Pkg.Path(), "/zzverif") && !strings.HasPrefix(g.Name(), "zz") {
		p.freeze(cell, "package-level "+g.Pkg.Pkg.Name()+"."+g.Name(), map[interface{}]bool{})
	}
	return cell
}

func (w *Worker) constValue(c *ssa.Const) Value {
	if v, ok := w.consts[c]; ok {
		return v
	}
	v := w.mkConst(c)
	w.consts[c] = v
	return v
}

func (w *Worker) mkConst(c *ssa.Const) Value {
	st := w.st
	if c.Value == nil {
		return st.zero(c.Type())
	}
	t := c.Type()
	if isString(t) {
		if c.Value.Kind() == constant.String {
			return strConst(st, constant.StringVal(c.Value))
		}
	}
	if wd, signed, ok := intInfo(t); ok {
		if wd == 0 {
			return st.Bool(constant.BoolVal(c.Value))
		}
		if signed {
			return st.Const(wd, uint64(c.Int64()))
		}
		return st.Const(wd, c.Uint64())
	}
	unsupportedf("constant %s of type %s", c, t)
	return nil
}

// ---------------------------------------------------------------- calls

func (p *Path) callValue(caller *frame, fv Value, args []Value, site ssa.Instruction) Value {
	switch f := fv.(type) {
	case *ssa.Function:
		return p.callFunction(caller, f, args, nil, site)
	case *Closure:
		if f == nil {
			p.fail("panic", "call of nil function")
		}
		return p.callFunction(caller, f.Fn, args, f.Env, site)
	case *ssa.Builtin:
		return p.callBuiltin(caller, f, args, site)
	}
	unsupportedf("call of %T", fv)
	return nil
}

// externModels: body-less (assembly) functions replaced by byte-loop models of zzverif/sym.
var externModels = map[string]string{
	"internal/bytealg.IndexByteString": "ExtIndexByteString",
	"internal/bytealg.IndexByte":       "ExtIndexByte",
	"internal/bytealg.CountString":     "ExtCountString",
	"internal/bytealg.Count":           "ExtCount",
	"internal/bytealg.IndexString":     "ExtIndexString",
	"internal/bytealg.Index":           "ExtIndex",
	"internal/bytealg.Compare":         "ExtCompare",
}

func (p *Path) callFunction(caller *frame, fn *ssa.Function, args []Value, env []Value, site ssa.Instruction) Value {
	if len(p.w.eng.redirects) > 0 {
		if to, ok := p.w.eng.redirects[fn.String()]; ok {
			fn = to
		}
	}
	if in, ok := intrinsics[fn.String()]; ok {
		return in(p, caller, fn, args)
	}
	if fn.Origin() != nil {
		if in, ok := intrinsics[fn.Origin().String()]; ok {
			return in(p, caller, fn, args)
		}
	}
	if fn.Name() == "init" && fn.Synthetic != "" && fn.Pkg != nil && !p.w.eng.runInit(fn.Pkg) {
		return nil
	}
	if fn.Blocks == nil {
		if fn.Pkg != nil {
			// functions of dependency packages are built lazily
			fn.Pkg.Build()
		}
		if fn.Blocks == nil {
			if m, ok := externModels[fn.String()]; ok {
				if mf := p.w.eng.symPkg.Func(m); mf != nil {
					p.w.eng.noteStub(fn.String() + " -> sym." + m)
					return p.callFunction(caller, mf, args, nil, site)
				}
			}
			unsupportedf("external function %s", fn)
		}
	}
	if !p.w.funcs[fn] {
		p.w.funcs[fn] = true
	}
	fi := p.w.eng.info(fn)
	if fi.pure == 1 && env == nil {
		return p.summarise(fi, args)
	}
	p.depth++
	if p.depth > p.w.eng.maxDepth {
		p.end("budget", "call depth")
	}
	fr := &frame{p: p, caller: caller, fn: fn, info: fi}
	fr.env = make([]Value, fi.n)
	for i, a := range args {
		fr.env[i] = a
	}
	for i, v := range env {
		fr.env[len(fn.Params)+i] = v
	}
	fr.block = fn.Blocks[0]
	fr.run()
	p.depth--
	return fr.result
}

func (fr *frame) run() {
	p := fr.p
	for !fr.done {
		b := fr.block
		for _, ins := range b.Instrs {
			p.steps++
			if p.steps > p.w.eng.maxSteps {
				p.end("budget", "instruction budget")
			}
			p.curInstr = ins
			if fr.exec(ins) {
				break
			}
		}
	}
}

func (fr *frame) runDefers() {
	for d := fr.defers; d != nil; d = d.tail {
		fr.p.callValue(fr, d.fn, d.args, nil)
	}
	fr.defers = nil
}

// prepareCall evaluates the callee and arguments of a call instruction.
func (fr *frame) prepareCall(call *ssa.CallCommon) (Value, []Value) {
	p := fr.p
	var fv Value
	var args []Value
	if call.IsInvoke() {
		recv, ok := fr.get(call.Value).(Iface)
		if !ok {
			unsupportedf("invoke on non-interface")
		}
		if recv.T == nil {
			p.fail("panic", "method call on nil interface: "+call.Method.Name())
		}
		fn := p.w.eng.lookupMethod(recv.T, call.Method)
		if fn == nil {
			unsupportedf("no method %s on %s", call.Method.Name(), recv.T)
		}
		fv = fn
		args = append(args, recv.V)
	} else {
		fv = fr.get(call.Value)
	}
	for _, a := range call.Args {
		args = append(args, fr.get(a))
	}
	return fv, args
}

func (e *Engine) lookupMethod(t types.Type, m *types.Func) *ssa.Function {
	sel := e.prog.MethodSets.MethodSet(t).Lookup(m.Pkg(), m.Name())
	if sel == nil {
		return nil
	}
	return e.prog.MethodValue(sel)
}

// ---------------------------------------------------------------- instructions

// exec runs one instruction; it returns true when control left the block.
func (fr *frame) exec(ins ssa.Instruction) bool {
	p := fr.p
	st := p.st()
	switch ins := ins.(type) {
	case *ssa.DebugRef:
	case *ssa.UnOp:
		fr.set(ins, fr.unop(ins))
	case *ssa.BinOp:
		fr.set(ins, p.binop(ins.Op, ins.X.Type(), fr.get(ins.X), fr.get(ins.Y), ins.Y.Type()))
	case *ssa.Call:
		fv, args := fr.prepareCall(&ins.Call)
		r := p.callValue(fr, fv, args, ins)
		if r == nil {
			r = Tuple(nil)
		}
		fr.set(ins, r)
	case *ssa.ChangeInterface:
		fr.set(ins, fr.get(ins.X))
	case *ssa.ChangeType:
		fr.set(ins, fr.get(ins.X))
	case *ssa.Convert:
		fr.set(ins, p.convert(ins.X.Type(), ins.Type(), fr.get(ins.X)))
	case *ssa.SliceToArrayPointer:
		unsupportedf("SliceToArrayPointer")
	case *ssa.MakeInterface:
		fr.set(ins, Iface{T: ins.X.Type(), V: fr.get(ins.X)})
	case *ssa.Extract:
		fr.set(ins, fr.get(ins.Tuple).(Tuple)[ins.Index])
	case *ssa.Slice:
		fr.set(ins, fr.slice(ins))
	case *ssa.Return:
		switch len(ins.Results) {
		case 0:
		case 1:
			fr.result = fr.get(ins.Results[0])
		default:
			res := make(Tuple, len(ins.Results))
			for i, r := range ins.Results {
				res[i] = fr.get(r)
			}
			fr.result = res
		}
		fr.done = true
		return true
	case *ssa.RunDefers:
		fr.runDefers()
	case *ssa.Panic:
		v := fr.get(ins.X)
		msg := "panic"
		if i, ok := v.(Iface); ok {
			if s, ok := i.V.(Str); ok {
				if cs, ok := s.concrete(); ok {
					msg = "panic: " + cs
				}
			}
		}
		p.fail("panic", msg)
	case *ssa.Send, *ssa.Go, *ssa.Select:
		unsupportedf("concurrency instruction %T", ins)
	case *ssa.Store:
		ptr := fr.get(ins.Addr).(*Value)
		if ptr == nil {
			p.fail("panic", "nil pointer dereference (store)")
		}
		p.checkWrite(ptr)
		storeInto(ptr, fr.get(ins.Val))
	case *ssa.If:
		c := fr.get(ins.Cond).(*Term)
		succ := 1
		if p.branch(c) {
			succ = 0
		}
		fr.prev, fr.block = fr.block, fr.block.Succs[succ]
		return true
	case *ssa.Jump:
		fr.prev, fr.block = fr.block, fr.block.Succs[0]
		return true
	case *ssa.Defer:
		fv, args := fr.prepareCall(&ins.Call)
		fr.defers = &deferred{fn: fv, args: args, tail: fr.defers}
	case *ssa.Alloc:
		cell := new(Value)
		*cell = st.zero(ins.Type().(*types.Pointer).Elem())
		fr.set(ins, cell)
	case *ssa.MakeSlice:
		n, ok := constInt(fr.get(ins.Len))
		c, ok2 := constInt(fr.get(ins.Cap))
		if !ok || !ok2 {
			unsupportedf("MakeSlice with symbolic length")
		}
		if n < 0 || c < n {
			p.fail("panic", "makeslice: len out of range")
		}
		s := make(Slice, n, c)
		et := ins.Type().Underlying().(*types.Slice).Elem()
		for i := range s {
			s[i] = st.zero(et)
		}
		fr.set(ins, s)
	case *ssa.MakeMap:
		fr.set(ins, &Map{})
	case *ssa.MakeChan:
		unsupportedf("MakeChan")
	case *ssa.Range:
		switch x := fr.get(ins.X).(type) {
		case *Map:
			fr.set(ins, &mapIter{m: x})
		case Str:
			fr.set(ins, &strIter{s: x})
		default:
			unsupportedf("range over %T", x)
		}
	case *ssa.Next:
		fr.set(ins, fr.next(ins))
	case *ssa.FieldAddr:
		ptr := fr.get(ins.X).(*Value)
		if ptr == nil {
			p.fail("panic", "nil pointer dereference (field "+fieldName(ins.X.Type(), ins.Field)+")")
		}
		fr.set(ins, &(*ptr).(Struct)[ins.Field])
	case *ssa.Field:
		fr.set(ins, fr.get(ins.X).(Struct)[ins.Field])
	case *ssa.IndexAddr:
		fr.set(ins, fr.indexAddr(ins))
	case *ssa.Index:
		fr.set(ins, fr.index(ins))
	case *ssa.Lookup:
		fr.set(ins, fr.lookup(ins))
	case *ssa.MapUpdate:
		m, _ := fr.get(ins.Map).(*Map)
		if m == nil {
			p.fail("panic", "assignment to entry in nil map")
		}
		p.checkMapWrite(m)
		p.mapUpdate(m, fr.get(ins.Key), copyVal(fr.get(ins.Value)))
	case *ssa.TypeAssert:
		fr.set(ins, fr.typeAssert(ins))
	case *ssa.MakeClosure:
		var bindings []Value
		for _, b := range ins.Bindings {
			bindings = append(bindings, fr.get(b))
		}
		fr.set(ins, &Closure{Fn: ins.Fn.(*ssa.Function), Env: bindings})
	case *ssa.Phi:
		for i, pred := range ins.Block().Preds {
			if fr.prev == pred {
				fr.set(ins, fr.get(ins.Edges[i]))
				break
			}
		}
	default:
		unsupportedf("instruction %T", ins)
	}
	return false
}

func fieldName(t types.Type, i int) string {
	if pt, ok := t.Underlying().(*types.Pointer); ok {
		if s, ok := pt.Elem().Underlying().(*types.Struct); ok && i < s.NumFields() {
			return s.Field(i).Name()
		}
	}
	return fmt.Sprint(i)
}

func constInt(v Value) (int, bool) {
	t, ok := v.(*Term)
	if !ok || t.op != OpConst {
		return 0, false
	}
	return int(sext(t.c, t.w)), true
}

func (fr *frame) unop(ins *ssa.UnOp) Value {
	p := fr.p
	st := p.st()
	x := fr.get(ins.X)
	switch ins.Op {
	case token.MUL:
		ptr := x.(*Value)
		if ptr == nil {
			p.fail("panic", "nil pointer dereference (load)")
		}
		return copyVal(*ptr)
	case token.NOT:
		return st.Not(x.(*Term))
	case token.SUB:
		t := x.(*Term)
		return st.Bin(OpSub, st.Const(t.w, 0), t)
	case token.XOR:
		t := x.(*Term)
		return st.Bin(OpBXor, t, st.Const(t.w, mask(t.w)))
	}
	unsupportedf("unary operator %s", ins.Op)
	return nil
}

func (p *Path) binop(op token.Token, xt types.Type, x, y Value, yt types.Type) Value {
	st := p.st()
	switch a := x.(type) {
	case *Term:
		b := y.(*Term)
		if a.w == 0 {
			switch op {
			case token.EQL:
				return st.Eq(a, b)
			case token.NEQ:
				return st.Not(st.Eq(a, b))
			case token.AND, token.LAND:
				return st.And(a, b)
			case token.OR, token.LOR:
				return st.Or(a, b)
			}
			unsupportedf("bool operator %s", op)
		}
		_, signed, _ := intInfo(xt)
		switch op {
		case token.SHL, token.SHR:
			_, ysigned, _ := intInfo(yt)
			if b.w != a.w {
				if b.op == OpConst {
					b = st.Const(a.w, minU(b.c, 255))
				} else if b.w < a.w {
					b = st.Resize(b, a.w, ysigned)
				} else {
					// wider count: saturate
					big := st.Bin(OpUle, st.Const(b.w, uint64(a.w)), b)
					b = st.Ite(big, st.Const(a.w, uint64(a.w)), st.Resize(b, a.w, false))
				}
			}
			if op == token.SHL {
				return st.Bin(OpShl, a, b)
			}
			if signed {
				return st.Bin(OpAShr, a, b)
			}
			return st.Bin(OpLShr, a, b)
		}
		if a.w != b.w {
			unsupportedf("binop %s on widths %d,%d", op, a.w, b.w)
		}
		switch op {
		case token.ADD:
			return st.Bin(OpAdd, a, b)
		case token.SUB:
			return st.Bin(OpSub, a, b)
		case token.MUL:
			return st.Bin(OpMul, a, b)
		case token.QUO, token.REM:
			p.assert(st.Not(st.Eq(b, st.Const(b.w, 0))), "panic", "panic", "integer divide by zero")
			if op == token.QUO {
				if signed {
					return st.Bin(OpSDiv, a, b)
				}
				return st.Bin(OpUDiv, a, b)
			}
			if signed {
				return st.Bin(OpSRem, a, b)
			}
			return st.Bin(OpURem, a, b)
		case token.AND:
			return st.Bin(OpBAnd, a, b)
		case token.OR:
			return st.Bin(OpBOr, a, b)
		case token.XOR:
			return st.Bin(OpBXor, a, b)
		case token.AND_NOT:
			return st.Bin(OpBAnd, a, st.Bin(OpBXor, b, st.Const(b.w, mask(b.w))))
		case token.EQL:
			return st.Eq(a, b)
		case token.NEQ:
			return st.Not(st.Eq(a, b))
		case token.LSS:
			if signed {
				return st.Bin(OpSlt, a, b)
			}
			return st.Bin(OpUlt, a, b)
		case token.LEQ:
			if signed {
				return st.Bin(OpSle, a, b)
			}
			return st.Bin(OpUle, a, b)
		case token.GTR:
			if signed {
				return st.Bin(OpSlt, b, a)
			}
			return st.Bin(OpUlt, b, a)
		case token.GEQ:
			if signed {
				return st.Bin(OpSle, b, a)
			}
			return st.Bin(OpUle, b, a)
		}
		unsupportedf("integer operator %s", op)
	case Str:
		b := y.(Str)
		switch op {
		case token.ADD:
			r := make([]*Term, 0, len(a.b)+len(b.b))
			r = append(r, a.b...)
			r = append(r, b.b...)
			return Str{r}
		case token.EQL:
			return st.eqTerm(a, b)
		case token.NEQ:
			return st.Not(st.eqTerm(a, b))
		case token.LSS, token.LEQ, token.GTR, token.GEQ:
			as, ok1 := a.concrete()
			bs, ok2 := b.concrete()
			if ok1 && ok2 {
				switch op {
				case token.LSS:
					return st.Bool(as < bs)
				case token.LEQ:
					return st.Bool(as <= bs)
				case token.GTR:
					return st.Bool(as > bs)
				default:
					return st.Bool(as >= bs)
				}
			}
		}
		unsupportedf("string operator %s on symbolic strings", op)
	}
	switch op {
	case token.EQL:
		return st.eqTerm(x, y)
	case token.NEQ:
		return st.Not(st.eqTerm(x, y))
	}
	unsupportedf("operator %s on %T", op, x)
	return nil
}

func minU(a, b uint64) uint64 {
	if a < b {
		return a
	}
	return b
}

func (p *Path) convert(from, to types.Type, x Value) Value {
	st := p.st()
	fu, tu := from.Underlying(), to.Underlying()
	if fw, fsigned, ok := intInfo(from); ok && fw > 0 {
		if tw, _, ok := intInfo(to); ok && tw > 0 {
			return st.Resize(x.(*Term), tw, fsigned)
		}
		if isString(to) {
			return p.runeToString(x.(*Term), fsigned)
		}
	}
	if isString(from) {
		if ts, ok := tu.(*types.Slice); ok {
			if eb, ok := ts.Elem().Underlying().(*types.Basic); ok && eb.Kind() == types.Uint8 {
				s := x.(Str)
				out := make(Slice, len(s.b))
				for i, t := range s.b {
					out[i] = t
				}
				return out
			}
			if eb, ok := ts.Elem().Underlying().(*types.Basic); ok && eb.Kind() == types.Int32 {
				cs, ok := x.(Str).concrete()
				if !ok {
					unsupportedf("[]rune(symbolic string)")
				}
				var out Slice
				for _, r := range cs {
					out = append(out, st.Const(32, uint64(r)))
				}
				return out
			}
		}
		if isString(to) {
			return x
		}
	}
	if fs, ok := fu.(*types.Slice); ok && isString(to) {
		if eb, ok := fs.Elem().Underlying().(*types.Basic); ok && eb.Kind() == types.Uint8 {
			s := x.(Slice)
			out := make([]*Term, len(s))
			for i, v := range s {
				out[i] = v.(*Term)
			}
			return Str{out}
		}
		if eb, ok := fs.Elem().Underlying().(*types.Basic); ok && eb.Kind() == types.Int32 {
			var sb strings.Builder
			for _, v := range x.(Slice) {
				c, ok := constInt(v)
				if !ok {
					unsupportedf("string([]rune) with symbolic rune")
				}
				sb.WriteRune(rune(c))
			}
			return strConst(st, sb.String())
		}
	}
	if _, ok := fu.(*types.Pointer); ok {
		if b, ok := tu.(*types.Basic); ok && b.Kind() == types.UnsafePointer {
			return x
		}
	}
	unsupportedf("conversion %s -> %s", from, to)
	return nil
}

// runeToString implements string(r) for an integer r, forking on the UTF-8
// length class when r is symbolic.
func (p *Path) runeToString(r *Term, signed bool) Value {
	st := p.st()
	if r.op == OpConst {
		v := int64(r.c)
		if signed {
			v = sext(r.c, r.w)
		}
		if v < 0 || v > 0x10FFFF {
			v = 0xFFFD
		}
		return strConst(st, string(rune(v)))
	}
	x := st.Resize(r, 32, signed)
	c := func(v uint64) *Term { return st.Const(32, v) }
	b8 := func(t *Term) *Term { return st.Resize(t, 8, false) }
	shr := func(t *Term, n uint64) *Term { return st.Bin(OpLShr, t, c(n)) }
	and := func(t *Term, m uint64) *Term { return st.Bin(OpBAnd, t, c(m)) }
	or := func(t *Term, m uint64) *Term { return st.Bin(OpBOr, t, c(m)) }
	if p.branch(st.Bin(OpUlt, x, c(0x80))) {
		return Str{[]*Term{b8(x)}}
	}
	if p.branch(st.Bin(OpUlt, x, c(0x800))) {
		return Str{[]*Term{b8(or(shr(x, 6), 0xC0)), b8(or(and(x, 0x3F), 0x80))}}
	}
	bad := st.Or(st.Bin(OpUlt, c(0x10FFFF), x),
		st.And(st.Bin(OpUle, c(0xD800), x), st.Bin(OpUle, x, c(0xDFFF))))
	if p.branch(bad) {
		return strConst(st, "�")
	}
	if p.branch(st.Bin(OpUlt, x, c(0x10000))) {
		return Str{[]*Term{b8(or(shr(x, 12), 0xE0)), b8(or(and(shr(x, 6), 0x3F), 0x80)), b8(or(and(x, 0x3F), 0x80))}}
	}
	return Str{[]*Term{b8(or(shr(x, 18), 0xF0)), b8(or(and(shr(x, 12), 0x3F), 0x80)),
		b8(or(and(shr(x, 6), 0x3F), 0x80)), b8(or(and(x, 0x3F), 0x80))}}
}

// boundsIndex checks 0 <= idx < n and returns a concrete index when idx is
// constant (ok=true) or leaves it symbolic (ok=false) after asserting bounds.
func (p *Path) boundsIndex(idx *Term, n int, what string) (int, bool) {
	st := p.st()
	if idx.op == OpConst {
		i := int(sext(idx.c, idx.w))
		if i < 0 || i >= n {
			p.fail("panic", fmt.Sprintf("index out of range [%d] with length %d (%s)", i, n, what))
		}
		return i, true
	}
	idx = p.simplify(idx)
	if idx.op == OpConst {
		return p.boundsIndex(idx, n, what)
	}
	in := st.Bin(OpUlt, idx, st.Const(idx.w, uint64(n)))
	p.assert(in, "panic", "panic", fmt.Sprintf("index out of range with length %d (%s)", n, what))
	return 0, false
}

func (p *Path) selectElem(elems []Value, idx *Term) Value {
	st := p.st()
	// ite chain over scalar elements
	var r *Term
	for i := len(elems) - 1; i >= 0; i-- {
		e, ok := elems[i].(*Term)
		if !ok {
			unsupportedf("symbolic index into non-scalar elements")
		}
		if r == nil {
			r = e
		} else {
			r = st.Ite(st.Eq(idx, st.Const(idx.w, uint64(i))), e, r)
		}
	}
	return r
}

func (fr *frame) index(ins *ssa.Index) Value {
	p := fr.p
	x := fr.get(ins.X)
	idx := fr.get(ins.Index).(*Term)
	switch x := x.(type) {
	case Array:
		i, ok := p.boundsIndex(idx, len(x), "array")
		if ok {
			return copyVal(x[i])
		}
		return p.selectElem(x, p.simplify(idx))
	case Str:
		return p.strIndex(x, idx)
	}
	unsupportedf("Index on %T", x)
	return nil
}

func (p *Path) strIndex(x Str, idx *Term) Value {
	i, ok := p.boundsIndex(idx, len(x.b), "string")
	if ok {
		return x.b[i]
	}
	elems := make([]Value, len(x.b))
	for k, t := range x.b {
		elems[k] = t
	}
	return p.selectElem(elems, p.simplify(idx))
}

func (fr *frame) indexAddr(ins *ssa.IndexAddr) Value {
	p := fr.p
	x := fr.get(ins.X)
	idx := fr.get(ins.Index).(*Term)
	switch x := x.(type) {
	case Slice:
		i, ok := p.boundsIndex(idx, len(x), "slice")
		if !ok {
			i = p.concretize(idx)
		}
		return &x[i]
	case *Value:
		if x == nil {
			p.fail("panic", "nil pointer dereference (index)")
		}
		a := (*x).(Array)
		i, ok := p.boundsIndex(idx, len(a), "array")
		if !ok {
			i = p.concretize(idx)
		}
		return &a[i]
	}
	unsupportedf("IndexAddr on %T", x)
	return nil
}

// concretize forks over the feasible values of a symbolic integer.
func (p *Path) concretize(t *Term) int {
	st := p.st()
	for n := 0; n < 4096; n++ {
		t = p.simplify(t)
		if t.op == OpConst {
			return int(sext(t.c, t.w))
		}
		v := Eval(t, p.model, p.memo)
		if p.branch(st.Eq(t, st.Const(t.w, v))) {
			return int(sext(v, t.w))
		}
	}
	unsupportedf("concretize: too many values")
	return 0
}

func (fr *frame) lookup(ins *ssa.Lookup) Value {
	p := fr.p
	st := p.st()
	x := fr.get(ins.X)
	switch x := x.(type) {
	case Str:
		return p.strIndex(x, fr.get(ins.Index).(*Term))
	case *Map:
		mt := ins.X.Type().Underlying().(*types.Map)
		v, ok := p.mapLookup(x, fr.get(ins.Index), mt.Elem())
		if ins.CommaOk {
			return Tuple{v, ok}
		}
		_ = st
		return v
	}
	unsupportedf("Lookup on %T", x)
	return nil
}

// mapLookup returns (value, present).
func (p *Path) mapLookup(m *Map, key Value, elem types.Type) (Value, *Term) {
	st := p.st()
	if m == nil {
		return st.zero(elem), st.False
	}
	type cand struct {
		c *Term
		i int
	}
	var cands []cand
	for i, k := range m.keys {
		c := p.simplify(st.eqTerm(k, key))
		if c.op == OpConst {
			if c.c != 0 {
				return copyVal(m.vals[i]), st.True
			}
			continue
		}
		cands = append(cands, cand{c, i})
	}
	if len(cands) == 0 {
		return st.zero(elem), st.False
	}
	// scalar values: no fork
	if _, ok := st.zero(elem).(*Term); ok {
		r := st.zero(elem).(*Term)
		present := st.False
		for j := len(cands) - 1; j >= 0; j-- {
			r = st.Ite(cands[j].c, m.vals[cands[j].i].(*Term), r)
			present = st.Or(cands[j].c, present)
		}
		return r, present
	}
	for _, cd := range cands {
		if p.branch(cd.c) {
			return copyVal(m.vals[cd.i]), st.True
		}
	}
	return st.zero(elem), st.False
}

func (p *Path) mapUpdate(m *Map, key, val Value) {
	st := p.st()
	for i, k := range m.keys {
		c := p.simplify(st.eqTerm(k, key))
		if c.op == OpConst {
			if c.c != 0 {
				m.vals[i] = val
				return
			}
			continue
		}
		if p.branch(c) {
			m.vals[i] = val
			return
		}
	}
	m.keys = append(m.keys, copyVal(key))
	m.vals = append(m.vals, val)
}

func (p *Path) mapDelete(m *Map, key Value) {
	st := p.st()
	if m == nil {
		return
	}
	for i, k := range m.keys {
		c := p.simplify(st.eqTerm(k, key))
		hit := false
		if c.op == OpConst {
			hit = c.c != 0
		} else {
			hit = p.branch(c)
		}
		if hit {
			m.keys = append(m.keys[:i:i], m.keys[i+1:]...)
			m.vals = append(m.vals[:i:i], m.vals[i+1:]...)
			return
		}
	}
}

func (fr *frame) next(ins *ssa.Next) Value {
	st := fr.p.st()
	switch it := fr.get(ins.Iter).(type) {
	case *mapIter:
		order := it.m
		n := 0
		if order != nil {
			n = len(order.keys)
		}
		if it.i >= n {
			return Tuple{st.False, nil, nil}
		}
		i := it.i
		if fr.p.w.eng.reverseMaps {
			i = n - 1 - it.i
		}
		it.i++
		return Tuple{st.True, copyVal(order.keys[i]), copyVal(order.vals[i])}
	case *strIter:
		cs, ok := it.s.concrete()
		if !ok {
			// symbolic bytes: decode one rune with the byte-comparison model of utf8.DecodeRuneInString
			if it.i >= len(it.s.b) {
				return Tuple{st.False, nil, nil}
			}
			mf := fr.p.w.eng.symPkg.Func("ExtDecodeRune")
			if mf == nil {
				unsupportedf("range over symbolic string")
			}
			fr.p.w.eng.noteStub("range over string -> sym.ExtDecodeRune")
			res := fr.p.callFunction(fr, mf, []Value{Str{b: it.s.b[it.i:]}}, nil, ins).(Tuple)
			size := res[1].(*Term)
			if size.op != OpConst {
				size = fr.p.simplify(size)
			}
			if size.op != OpConst {
				unsupportedf("range over symbolic string: symbolic rune width")
			}
			k := it.i
			it.i += int(size.c)
			return Tuple{st.True, st.Const(64, uint64(k)), res[0]}
		}
		if it.i >= len(cs) {
			return Tuple{st.False, nil, nil}
		}
		for off, r := range cs[it.i:] {
			_ = off
			k := it.i
			it.i += len(string(r))
			if r == 0xFFFD {
				it.i = k + 1
			}
			return Tuple{st.True, st.Const(64, uint64(k)), st.Const(32, uint64(r))}
		}
	}
	unsupportedf("Next on %T", fr.get(ins.Iter))
	return nil
}

func (fr *frame) slice(ins *ssa.Slice) Value {
	p := fr.p
	x := fr.get(ins.X)
	bound := func(v ssa.Value, def int) int {
		if v == nil {
			return def
		}
		t := fr.get(v).(*Term)
		if t.op != OpConst {
			t = p.simplify(t)
		}
		if t.op != OpConst {
			return p.concretize(t)
		}
		return int(sext(t.c, t.w))
	}
	switch x := x.(type) {
	case Str:
		lo := bound(ins.Low, 0)
		hi := bound(ins.High, len(x.b))
		if lo < 0 || hi < lo || hi > len(x.b) {
			p.fail("panic", fmt.Sprintf("slice bounds out of range [%d:%d] with length %d", lo, hi, len(x.b)))
		}
		return Str{x.b[lo:hi:hi]}
	case Slice:
		lo := bound(ins.Low, 0)
		hi := bound(ins.High, len(x))
		mx := bound(ins.Max, cap(x))
		if lo < 0 || hi < lo || mx < hi || mx > cap(x) {
			p.fail("panic", fmt.Sprintf("slice bounds out of range [%d:%d:%d] with capacity %d", lo, hi, mx, cap(x)))
		}
		if x == nil {
			return x
		}
		return x[lo:hi:mx]
	case *Value:
		if x == nil {
			p.fail("panic", "nil pointer dereference (slice of array)")
		}
		a := (*x).(Array)
		lo := bound(ins.Low, 0)
		hi := bound(ins.High, len(a))
		mx := bound(ins.Max, len(a))
		if lo < 0 || hi < lo || mx < hi || mx > len(a) {
			p.fail("panic", "slice bounds out of range (array)")
		}
		return Slice(a[lo:hi:mx])
	}
	unsupportedf("Slice on %T", x)
	return nil
}

func (fr *frame) typeAssert(ins *ssa.TypeAssert) Value {
	p := fr.p
	st := p.st()
	v := fr.get(ins.X).(Iface)
	ok := false
	var res Value
	if _, isIface := ins.AssertedType.Underlying().(*types.Interface); isIface {
		if v.T != nil {
			it := ins.AssertedType.Underlying().(*types.Interface)
			ok = types.Implements(v.T, it)
		}
		res = v
		if !ok {
			res = Iface{}
		}
	} else {
		ok = v.T != nil && types.Identical(v.T, ins.AssertedType)
		if ok {
			res = v.V
		} else {
			res = st.zero(ins.AssertedType)
		}
	}
	if ins.CommaOk {
		return Tuple{res, st.Bool(ok)}
	}
	if !ok {
		p.fail("panic", fmt.Sprintf("interface conversion: %v is not %s", v.T, ins.AssertedType))
	}
	return res
}

func (p *Path) callBuiltin(caller *frame, fn *ssa.Builtin, args []Value, site ssa.Instruction) Value {
	st := p.st()
	switch fn.Name() {
	case "append":
		if len(args) == 1 {
			return args[0]
		}
		var dst Slice
		if args[0] != nil {
			dst = args[0].(Slice)
		}
		if len(p.frozenCells) > 0 && cap(dst) > len(dst) {
			// an append that fits writes into the shared backing array
			n := 0
			switch src := args[1].(type) {
			case Slice:
				n = len(src)
			case Str:
				n = len(src.b)
			}
			if n > 0 {
				p.checkWrite(&dst[:len(dst)+1][len(dst)])
			}
		}
		switch src := args[1].(type) {
		case Slice:
			for _, v := range src {
				dst = append(dst, copyVal(v))
			}
			return dst
		case Str:
			for _, b := range src.b {
				dst = append(dst, b)
			}
			return dst
		}
		unsupportedf("append of %T", args[1])
	case "copy":
		dst := args[0].(Slice)
		n := 0
		switch src := args[1].(type) {
		case Slice:
			n = len(src)
			if len(dst) < n {
				n = len(dst)
			}
			tmp := make([]Value, n)
			for i := 0; i < n; i++ {
				tmp[i] = copyVal(src[i])
			}
			for i := 0; i < n; i++ {
				dst[i] = tmp[i]
			}
		case Str:
			for n < len(dst) && n < len(src.b) {
				dst[n] = src.b[n]
				n++
			}
		}
		return st.Const(64, uint64(n))
	case "len":
		switch x := args[0].(type) {
		case Str:
			return st.Const(64, uint64(len(x.b)))
		case Slice:
			return st.Const(64, uint64(len(x)))
		case Array:
			return st.Const(64, uint64(len(x)))
		case *Map:
			if x == nil {
				return st.Const(64, 0)
			}
			return st.Const(64, uint64(len(x.keys)))
		case *Value:
			return st.Const(64, uint64(len((*x).(Array))))
		}
		unsupportedf("len of %T", args[0])
	case "cap":
		switch x := args[0].(type) {
		case Slice:
			return st.Const(64, uint64(cap(x)))
		case Array:
			return st.Const(64, uint64(len(x)))
		}
		unsupportedf("cap of %T", args[0])
	case "delete":
		m, _ := args[0].(*Map)
		if m != nil {
			p.checkMapWrite(m)
		}
		p.mapDelete(m, args[1])
		return nil
	case "panic":
		p.fail("panic", "panic")
	case "print", "println":
		return nil
	case "min", "max":
		r := args[0].(*Term)
		_, signed, _ := intInfo(site.(*ssa.Call).Call.Args[0].Type())
		for _, a := range args[1:] {
			t := a.(*Term)
			var lt *Term
			if signed {
				lt = st.Bin(OpSlt, t, r)
			} else {
				lt = st.Bin(OpUlt, t, r)
			}
			if fn.Name() == "max" {
				lt = st.Not(st.Or(lt, st.Eq(t, r)))
			}
			r = st.Ite(lt, t, r)
		}
		return r
	case "clear":
		if m, ok := args[0].(*Map); ok && m != nil {
			m.keys, m.vals = nil, nil
			return nil
		}
	}
	unsupportedf("builtin %s", fn.Name())
	return nil
}

// storeInto assigns v to the cell, element-wise for aggregates so that
// pointers to fields/elements obtained earlier stay valid.
func storeInto(cell *Value, v Value) {
	switch v := v.(type) {
	case Struct:
		if old, ok := (*cell).(Struct); ok && len(old) == len(v) {
			for i := range v {
				storeInto(&old[i], v[i])
			}
			return
		}
	case Array:
		if old, ok := (*cell).(Array); ok && len(old) == len(v) {
			for i := range v {
				storeInto(&old[i], v[i])
			}
			return
		}
	}
	*cell = copyVal(v)
}
