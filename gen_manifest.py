#!/usr/bin/env python3
"""Regenerates MANIFEST.json from checks.py (claimed checks) and META below."""
import json, os, sys
ROOT = os.path.dirname(os.path.abspath(__file__))
sys.path.insert(0, ROOT)
from checks import CHECKS, META

props = [json.loads(l)["id"] for l in open(os.path.join(ROOT, "properties.jsonl"))]
checks = []
na = []
for pid in props:
    if pid in CHECKS and CHECKS[pid].get("registered", True):
        m = META[pid]
        checks.append({
            "property_id": pid,
            "quick_cmd": "./check %s --tier quick" % pid,
            "thorough_cmd": "./check %s --tier thorough" % pid,
            "evidence_file": "/verif/evidence/%s.json" % pid,
            "replay_cmd_template": "./check --replay {path}",
            "engine": "xsym",
            "level_claimed": {"category": "model_checking", "text": m["text"], "design_ref": m["design_ref"]},
            "level_note": m["note"],
            "technique": m.get("technique", "bounded symbolic execution of the real Go code (go/ssa -> SMT-LIB2 bit-vectors, z3), path forking over control flow, native replay of counterexamples"),
        })
    else:
        na.append({"property_id": pid, "reason": META.get(pid, {}).get("na_reason", "check not built yet (framework under construction; see DESIGN.md)")})
man = {
    "version": 1,
    "setup_cmd": "./setup.sh",
    "hooks": {
        "guard": "none",
        "enable": "no source hooks: harnesses are injected as overlay files (go/packages Overlay for the executor, go build -overlay for native replay); /repo is never modified",
        "baseline_off_cmd": "cd /repo && go test -vet=off -count=1 ./...",
        "source_commits": [],
        "add_only": True,
    },
    "engines": [{
        "name": "xsym", "path": "/verif/engine",
        "serves_properties": [c["property_id"] for c in checks],
        "kind_free_text": "symbolic executor for go/ssa written for this task: scalars are SMT bit-vector terms, heap/control concrete per path, z3 4.8.12 over a pipe decides branch feasibility and every assertion; z3 5.1 and cvc5 re-decide assertion queries in the thorough tier",
    }],
    "checks": checks,
    "not_applicable": na,
    "notes": "exit 0 = held within the stated bounds (KNOWN-FINDING lines allowed); exit 1 = VIOLATION (reproduced natively); exit 2 = inconclusive (machinery problem, never reported as pass). See DESIGN.md.",
}
json.dump(man, open(os.path.join(ROOT, "MANIFEST.json"), "w"), indent=1)
print("claimed:", [c["property_id"] for c in checks])
