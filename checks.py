# Per-property harness runs. "params" are harness bounds (sym.Param), merged
# with the tier's overrides; "flags" are engine flags.
SM = "github.com/xjslang/xjs/sourcemap."
VLQ_REDIRECT = ["-redirect", SM + "encodeVLQ=" + SM + "zzVLQOpaque"]

LX = "github.com/xjslang/xjs/lexer."

CHECKS = {
    "C10": {
        "assumptions": [
            "one NextToken step from an arbitrary cursor state satisfying the invariant INV (readPosition = position+1, CurrentChar = input[position] or 0 at the end, Line/Column arbitrary in [0,2^30]); stale hadNewlineBefore/leadingComments arbitrary",
            "window: the remaining input is any byte string of length 0..K (end of input anywhere), or longer than K with the step's lexeme+trivia+1 lookahead inside the first K bytes; paths needing more are cut and counted (outside the claim)",
            "induction over steps (post-state satisfies INV, cursor never leaves the source, at least one byte consumed unless at the end) extends the step result to any number of tokens and any input length; base case ZZH10Init",
            "bytes before the cursor: 0..prefix arbitrary bytes (the step never reads them); independence from the absolute offset beyond that is by inspection (all indexing is relative to position)",
            "lone CR: don't care for the after-newline flag; comment entries compared modulo empty entries (blank-line markers)",
        ],
        "runs": [
            {"harnesses": [LX + "ZZH10Init", LX + "ZZH10Step"], "witnesses": 60,
             "quick": {"K": 6, "prefix": 0}, "thorough": {"K": 8, "prefix": 1}},
        ],
    },
    "C09": {
        "assumptions": [
            "VLQ codec: |n| <= 2^31 (property range); larger magnitudes outside the claim",
            "encodeMappings (modular): encodeVLQ replaced by its contract proved in H9aVLQ (self-delimiting piece decoding to its argument); every argument asserted inside the contract range",
            "segments per map <= bound 'segments'; generated-line delta per segment in [0,3]; fields in [0,2^30]",
            "histories: <= 'ops' operations, advanced strings <= 'strlen' bytes of any value, names 1 symbolic byte",
            "a CR ending one AdvanceString call and an LF starting the next is a don't-care (per-string tracking is the documented behaviour)",
        ],
        "runs": [
            {"harnesses": [SM + "ZZH9aVLQ"]},
            {"harnesses": [SM + "ZZH9bMappings"], "flags": VLQ_REDIRECT,
             "quick": {"segments": 3}, "thorough": {"segments": 4}},
            {"harnesses": [SM + "ZZH9bMappings"],
             "quick": {"segments": 2, "small": 20}, "thorough": {"segments": 2, "small": 600}},
            {"harnesses": [SM + "ZZH9cHistory"], "flags": VLQ_REDIRECT,
             "quick": {"ops": 3, "strlen": 2}, "thorough": {"ops": 4, "strlen": 3}},
        ],
    },
}

META = {
    "C10": {
        "text": "Inductive bounded symbolic model checking of the real lexer: one NextToken step is executed from an arbitrary valid cursor state over a window of K = 6 (quick) / 8 (thorough) symbolic bytes of any value (all 256^K windows, end of input anywhere). On every feasible path the solver discharges: start = first non-trivia byte (independent trivia scanner), progress, cursor inside the source, EOF exactly at the end and stable, end position, after-newline flag, comment texts, identifier/keyword/number slices and classification, and re-establishment of the cursor invariant - which makes the result hold for any number of tokens.",
        "design_ref": "DESIGN.md §7 C10",
        "note": "Trusted: xsym's SSA translation (witness paths replayed natively each run), z3, the reference trivia scanner R7 and position function R6. Outside the claim: a single lexeme together with its leading trivia longer than K bytes (counted as cut paths); the property's fuzzing clause is another technique.",
    },
    "C09": {
        "text": "Bounded symbolic model checking of the real sourcemap package: encodeVLQ is decided for every integer |n| <= 2^31 (7 paths x sign, solver-quantified over n); encodeMappings for every list of <= 3 (quick) / 4 (thorough) segments with arbitrary fields; every operation history of length <= 3 / 4 over the five builder operations with symbolic positions, advances, string bytes and names. The emitted mappings are decoded by an independent v3 decoder inside the same path and compared with the recorded absolute mappings.",
        "design_ref": "DESIGN.md §7 C09",
        "note": "Trusted: the go/ssa translation in xsym (validated on every run by replaying witness paths natively), z3 (cross-checked by z3 5.1 and cvc5 in the thorough tier), the reference decoder R1. Modular step: encodeVLQ replaced by its contract when checking encodeMappings, with the contract range asserted at every call. Outside the claim: more segments/operations than the bound, |n| > 2^31, File/Sources fields.",
    },
}
