# Per-property harness runs. "params" are harness bounds (sym.Param), merged
# with the tier's overrides; "flags" are engine flags.
SM = "github.com/xjslang/xjs/sourcemap."
VLQ_REDIRECT = ["-redirect", SM + "encodeVLQ=" + SM + "zzVLQOpaque"]

LX = "github.com/xjslang/xjs/lexer."

H = "github.com/xjslang/xjs/zzverif/h."
GEN_Q = {"budget": 2, "stmts": 2, "atoms": 1, "maxlist": 1}
GEN_T = {"budget": 3, "stmts": 2, "atoms": 1, "maxlist": 1}
GEN_ATOMS_Q = {"budget": 1, "stmts": 2, "atoms": 4, "maxlist": 2}
GEN_ATOMS_T = {"budget": 2, "stmts": 1, "atoms": 8, "maxlist": 2}
# expression palette: leaves are small fixed expressions (ident, a={}, function(){}, [a], (a), -a, a++, a.p, a(), multi-line backtick string, a+a, "s")
PAL_Q = {"budget": 1, "stmts": 1, "palette": 12, "palettemask": 1 + 2 + 32 + 512 + 1024 + 2048, "maxlist": 1, "nofunc": 1}
PAL_T = {"budget": 1, "stmts": 1, "palette": 12, "maxlist": 1, "nofunc": 1}
GEN_ASSUME = [
    "programs: every syntax tree of the subset within the node budget (internal nodes <= 'budget', <= 'stmts' top-level statements, lists <= 'maxlist' elements, 'atoms' atom kinds), produced by the generator of DESIGN.md §4.2; tree shape, separators and parenthesisation explored exhaustively by forking",
    "solver-quantified per path: operator identity inside each ECMAScript precedence class, every line-break flag ECMAScript permits, all token positions (0..2^20)",
    "the lexer is replaced by a scripted token source installed through the public UseTokenInterceptor extension point (token level); the text-to-token relation is C10's step lemma",
]
SCRIPT_ASSUME = [
    "token buffers: one of 27 concrete parser contexts (DESIGN.md §7 C11) followed by <= T tokens of arbitrary built-in type (solver-quantified, 45 types), arbitrary after-newline flags and positions, then EOF forever",
    "instruction budget per path = unwinding assertion (2,000,000 instructions, call depth 300): exceeding it is reported as inconclusive, never as a pass",
    "literal text of scripted tokens is \"1\" (numeric validation succeeds); invalid numeric literals are outside this run",
]

CHECKS = {
    "C01": {
        "assumptions": GEN_ASSUME + [
            "sufficient syntactic condition instead of running a JavaScript engine: the emitted text, read by the independent ECMAScript scanner R2, is the same token sequence as the source (quote style and statement-terminating ';' aside), every source statement boundary (and every `else` after an expression-ended branch) is still a boundary under the ECMAScript ASI rules (';', '}', or a line break followed by a token that cannot continue the line), and no line break stands at a restricted production; equal token sequences with equal statement boundaries are the same program, hence the same behaviour",
            "source side: the token script stands for the source text (C10 relates text to tokens, C02 tokens to the ECMAScript tree); literal values are C07",
            "configurations: compact, pretty with semicolons, pretty without semicolons, pretty with tabs; with and without source map (code must be identical)",
        ],
        "runs": [
            {"harnesses": [H + "ZZH1Behaviour"], "flags": VLQ_REDIRECT, "quick": dict(GEN_Q, stmts=2), "thorough": GEN_T},
            {"harnesses": [H + "ZZH1Behaviour"], "flags": VLQ_REDIRECT, "quick": dict(GEN_Q, budget=1, trivia=1, triviakinds=5), "thorough": dict(GEN_Q, trivia=1, triviakinds=3)},
            {"harnesses": [H + "ZZH1Behaviour"], "flags": VLQ_REDIRECT, "quick": {"budget": 0, "stmts": 3, "palette": 12, "nofunc": 1}, "thorough": {"budget": 1, "stmts": 2, "palette": 6, "maxlist": 1, "nofunc": 1}},
            {"harnesses": [H + "ZZH1Behaviour"], "flags": VLQ_REDIRECT, "quick": PAL_Q, "thorough": PAL_T},
            # if/else with empty blocks and object values / groups as leaves, two statements
            {"harnesses": [H + "ZZH1Behaviour"], "flags": VLQ_REDIRECT, "quick": {"budget": 1, "stmts": 2, "palette": 12, "palettemask": 19, "maxlist": 1, "nofunc": 1}, "thorough": {"budget": 1, "stmts": 2, "palette": 12, "palettemask": 51, "maxlist": 1, "nofunc": 1}},
            # comments together with a multi-line backtick string
            {"harnesses": [H + "ZZH1Behaviour"], "flags": VLQ_REDIRECT, "quick": {"budget": 0, "stmts": 2, "palette": 12, "palettemask": 513, "trivia": 1, "triviakinds": 5, "nofunc": 1}, "thorough": {"budget": 0, "stmts": 3, "palette": 12, "palettemask": 513, "trivia": 2, "triviakinds": 5, "nofunc": 1}},
            # statements inside a function body (return available at no cost) with comments on any token: the restricted
            # production after `return` with trivia replayed around calls / member accesses / operators
            {"harnesses": [H + "ZZH1Behaviour"], "flags": VLQ_REDIRECT, "quick": {"budget": 2, "stmts": 1, "trivia": 1, "triviakinds": 2, "wrapfunc": 1, "nofunc": 1, "atoms": 1, "maxlist": 1, "stmtmask": 128, "exprmask": 896}, "thorough": {"budget": 2, "stmts": 1, "trivia": 1, "triviakinds": 5, "wrapfunc": 1, "nofunc": 1, "atoms": 1, "maxlist": 1, "stmtmask": 128, "exprmask": 1022}},
            # after an earlier plugin-configured parser in the same process
            {"harnesses": [H + "ZZH1Behaviour"], "flags": VLQ_REDIRECT, "quick": dict(GEN_Q, stmts=1, prelude=1, preludeops=1, preludecfgs=1), "thorough": dict(GEN_Q, prelude=1)},
            # literal objects: a decimal integer as the object of a member access / call / index (`1 .p`)
            {"harnesses": [H + "ZZH1Behaviour"], "flags": VLQ_REDIRECT, "quick": {"budget": 2, "stmts": 1, "atoms": 2, "exprmask": 896, "litcallee": 1, "nofunc": 1, "maxlist": 1}, "thorough": {"budget": 2, "stmts": 2, "atoms": 2, "exprmask": 896, "litcallee": 1, "nofunc": 1, "maxlist": 1}},
        ],
    },
    "C14": {
        "assumptions": SCRIPT_ASSUME + GEN_ASSUME + [
            "goroutine schedules are not explored (the executor has no scheduler). Reduction: jobs that only write memory they allocated themselves and only read shared memory that nobody writes are data-race-free and equal to their sequential runs; the premise is decided here: a confinement monitor reports every store, map update or in-place append that targets package-level state of xjs (frozen after package initialisation), a builder after configuration, or a tree during compilation",
            "sequential histories: job A (default) / job B (registered operators at a solver-quantified level, interceptors, tolerant+smart modes) in orders ABA and BAB; one builder building parsers for two buffers alternately and two parsers alive at once; one tree compiled compact/pretty/with map repeatedly and one compiler object reused",
            "a monitor hit counts as a violation only if the native replay shows an observable consequence (a failed equality assertion); otherwise the run is inconclusive",
        ],
        "runs": [
            {"harnesses": [H + "ZZH14aJobs"], "flags": VLQ_REDIRECT, "quick": {"T": 1}, "thorough": {"T": 2}},
            {"harnesses": [H + "ZZH14bBuilderReuse"], "flags": VLQ_REDIRECT, "quick": {"T": 1, "T1": 0}, "thorough": {"T": 2, "T1": 0}},
            {"harnesses": [H + "ZZH14dReconfigure"], "flags": VLQ_REDIRECT, "quick": {"T": 1}, "thorough": {"T": 2}},
            # (no VLQ stand-in here: positions are concrete, the real codec runs under the confinement monitor)
            {"harnesses": [H + "ZZH14cCompile"], "quick": dict(GEN_Q, budget=1, trivia=1), "thorough": dict(GEN_Q, trivia=1)},
        ],
    },
    "C02": {
        "assumptions": GEN_ASSUME + ["expected tree: built by the generator with its own copy of the ECMAScript precedence levels, ASI rules and restricted productions; grouping nodes are ignored in the comparison"],
        "runs": [
            {"harnesses": [H + "ZZH2Parse"], "flags": VLQ_REDIRECT, "quick": GEN_Q, "thorough": GEN_T},
            {"harnesses": [H + "ZZH2Parse"], "flags": VLQ_REDIRECT, "quick": GEN_ATOMS_Q, "thorough": GEN_ATOMS_T},
            # after an earlier plugin-configured parser in the same process (postfix operator on a built-in operator token)
            {"harnesses": [H + "ZZH2Parse"], "flags": VLQ_REDIRECT, "quick": dict(GEN_Q, stmts=1, prelude=1), "thorough": dict(GEN_Q, prelude=1)},
            # text -> token lemma (layer L): operator/punctuation kinds and extents by maximal munch, identifiers, keywords,
            # numbers, trivia skipping - the same step harness as C10 (whitespace and comments never change the token sequence)
            {"harnesses": [LX + "ZZH10Step"], "quick": {"K": 5, "prefix": 0}, "thorough": {"K": 7, "prefix": 0}},
        ],
    },
    "C03": {
        "assumptions": [
            "trees: every tree over the core expression nodes with <= 'budget' internal nodes built directly from ast constructors (operands of any precedence, no grouping added), wrapped in an expression statement, a let initialiser or a return inside a function declaration; callee/object positions hold identifier/member/index/call/group; assignment targets identifier/member/index",
            "operators are enumerated by forking (their text is re-lexed); printer flags PrettyPrint and WriteSemicolons are solver variables; lexemes are concrete",
            "the printed text is read back by the real lexer and parser in the same path; shapes compared ignoring grouping nodes",
            "table lemma ZZH3pTables: one solver query over all 2^64 token-type values",
        ],
        "runs": [
            {"harnesses": [H + "ZZH3pTables"]},
            {"harnesses": [H + "ZZH3RoundTrip"], "quick": {"budget": 2, "atoms": 2, "funcs": 1}, "thorough": {"budget": 3, "atoms": 1, "funcs": 0}},
            {"harnesses": [H + "ZZH3RoundTrip"], "quick": {"budget": 1, "atoms": 7, "funcs": 1}, "thorough": {"budget": 2, "atoms": 7, "funcs": 1}},
            # object / function / array literals in callee and object positions
            {"harnesses": [H + "ZZH3RoundTrip"], "quick": {"budget": 2, "atoms": 1, "funcs": 1, "calleeleaves": 1}, "thorough": {"budget": 3, "atoms": 1, "funcs": 0, "calleeleaves": 1}},
            # followed by a second, indented statement (layout state must not leak out of the first)
            {"harnesses": [H + "ZZH3RoundTrip"], "quick": {"budget": 2, "atoms": 1, "funcs": 1, "follow": 1}, "thorough": {"budget": 2, "atoms": 2, "funcs": 1, "follow": 1}},
            # a bare block statement follows (pretty printing without semicolons must keep the two statements apart)
            {"harnesses": [H + "ZZH3RoundTrip"], "quick": {"budget": 2, "atoms": 1, "funcs": 1, "follow": 2}, "thorough": {"budget": 2, "atoms": 2, "funcs": 1, "follow": 2}},
            # statement trees assembled from the constructors: every nesting of if / if-else / while / for / block / function
            # with <= sbudget compound statements (dangling else, declarations in lists, for headers with and without parts)
            # after an earlier plugin-configured parser in the same process
            {"harnesses": [H + "ZZH3RoundTrip"], "quick": {"budget": 2, "atoms": 1, "funcs": 0, "prelude": 1}, "thorough": {"budget": 2, "atoms": 2, "funcs": 1, "prelude": 1}},
            {"harnesses": [H + "ZZH3Statements"], "quick": {"sbudget": 3, "stmts": 1, "sleaves": 1, "maxblock": 1}, "thorough": {"sbudget": 3, "stmts": 2, "sleaves": 2, "maxblock": 2}},
        ],
    },
    "C06": {
        "assumptions": GEN_ASSUME + [
            "programs are generated with concrete lexemes and operators (their text is re-read); parsed by the real parser through the token stub, compiled compact and pretty, and both outputs are re-read by the real lexer and parser in the same path",
            "options: semicolons on/off (solver variable), indent unit from {2 spaces, tab, 0, 4, 1, 8} (first 'indents' of them)",
            "trivia: <= 'trivia' tokens (any token that may follow a line break, not inside a for header) carry one of 5 comment/blank-line shapes; comment text concrete here (symbolic in C15)",
            "semicolon clause: outputs compared after removing statement-terminating ';' tokens (located with the reference scanner R2; for-header separators kept) - the position of a kept terminator is not constrained",
        ],
        "runs": [
            {"harnesses": [H + "ZZH6Pretty"], "flags": VLQ_REDIRECT, "quick": dict(GEN_Q, trivia=0, indents=2), "thorough": dict(GEN_Q, trivia=0, indents=6)},
            {"harnesses": [H + "ZZH6Pretty"], "flags": VLQ_REDIRECT, "quick": dict(GEN_Q, budget=1, trivia=1, indents=1, triviakinds=5), "thorough": dict(GEN_Q, trivia=1, indents=1, triviakinds=3)},
            # statement structure with palette leaves (object/function values, groups, signs, multi-line backtick strings)
            {"harnesses": [H + "ZZH6Pretty"], "flags": VLQ_REDIRECT, "quick": {"budget": 0, "stmts": 3, "palette": 12, "nofunc": 1, "trivia": 0, "indents": 2}, "thorough": {"budget": 1, "stmts": 2, "palette": 6, "maxlist": 1, "nofunc": 1, "trivia": 0, "indents": 1}},
            {"harnesses": [H + "ZZH6Pretty"], "flags": VLQ_REDIRECT, "quick": {"budget": 1, "stmts": 1, "palette": 6, "maxlist": 1, "nofunc": 1, "trivia": 0, "indents": 1}, "thorough": dict(PAL_T, trivia=0, indents=1)},
            # comments together with a multi-line backtick string (escaped backtick, space before the line break)
            {"harnesses": [H + "ZZH6Pretty"], "flags": VLQ_REDIRECT, "quick": {"budget": 0, "stmts": 2, "palette": 12, "palettemask": 513, "trivia": 1, "triviakinds": 5, "nofunc": 1, "indents": 1}, "thorough": {"budget": 0, "stmts": 3, "palette": 12, "palettemask": 513, "trivia": 2, "triviakinds": 5, "nofunc": 1, "indents": 2}},
            # statement structure (nested if/else/while/for/blocks) with identifier leaves and free empty blocks
            {"harnesses": [H + "ZZH6Pretty"], "flags": VLQ_REDIRECT, "quick": {"budget": 2, "stmts": 1, "palette": 12, "palettemask": 1, "maxlist": 1, "nofunc": 1, "exprmask": 1, "trivia": 0, "indents": 1}, "thorough": {"budget": 3, "stmts": 1, "palette": 12, "palettemask": 1, "maxlist": 1, "nofunc": 1, "exprmask": 1, "trivia": 0, "indents": 1}},
            # if / else, while and blocks with comments on any token (also on `else` after a brace-less branch)
            {"harnesses": [H + "ZZH6Pretty"], "flags": VLQ_REDIRECT, "quick": {"budget": 2, "stmts": 1, "trivia": 1, "triviakinds": 5, "stmtmask": 44, "exprmask": 1024, "nofunc": 1, "indents": 1, "atoms": 1, "maxlist": 1}, "thorough": {"budget": 2, "stmts": 2, "trivia": 1, "triviakinds": 5, "stmtmask": 44, "exprmask": 1024, "nofunc": 1, "indents": 1, "atoms": 1, "maxlist": 1}},
            # text level: compact and pretty printers emit the same text for every string literal (escapes, line continuations)
            {"harnesses": [H + "ZZH6Literals"], "quick": {"K": 3}, "thorough": {"K": 4}},
        ],
    },
    "C07": {
        "assumptions": [
            "text level: the literal is the right-hand side of `x=<literal>;`, read by the real lexer, parser and compiler (compact and pretty: solver variable)",
            "strings: both quote styles, content of <= K arbitrary bytes (ASCII by default; a second run allows any byte), restricted by Assume to texts that the reference scanner R2 reads as exactly one valid literal and whose value R4 can compute (valid escapes, no legacy octal); extra runs fix the prefix \\x, \\u, \\u{ so that long escapes fit into the window",
            "backtick strings: <= K ASCII bytes, no ${ (substitutions are outside the subset); cooked value compared",
            "numbers: <= K bytes that R5 accepts as one numeric literal; outside: `digits.` without fraction digits, leading-zero/legacy-octal forms, exponents of three or more digits (range errors), more than K characters",
            "strconv.ParseInt / ParseFloat are replaced by syntax models of their error result (differentially tested against strconv at setup)",
            "the emitted literal is re-read by R2/R4 (independent of the lexer); JavaScript engines are not run",
            "pairs: `x=<string of <= K1 ASCII bytes>;y=<backtick string of <= K2 ASCII bytes>;` and the reverse order, both values compared",
        ],
        "runs": [
            {"harnesses": [H + "ZZH7Strings"], "quick": {"K": 4}, "thorough": {"K": 5}},
            {"harnesses": [H + "ZZH7Strings"], "quick": {"K": 3, "ascii": 0}, "thorough": {"K": 4, "ascii": 0}},
            {"harnesses": [H + "ZZH7Strings"], "quick": {"K": 3, "prefix": 1}, "thorough": {"K": 4, "prefix": 1}},
            {"harnesses": [H + "ZZH7Strings"], "quick": {"K": 4, "prefix": 2}, "thorough": {"K": 5, "prefix": 2}},
            {"harnesses": [H + "ZZH7Strings"], "quick": {"K": 5, "prefix": 3}, "thorough": {"K": 7, "prefix": 3}},
            {"harnesses": [H + "ZZH7Templates"], "quick": {"K": 4}, "thorough": {"K": 5}},
            {"harnesses": [H + "ZZH7Numbers"], "quick": {"K": 6}, "thorough": {"K": 8}},
            # two literals in one program (quoted string then backtick string, and the reverse): the content of one must not
            # change how the output passes treat the other
            {"harnesses": [H + "ZZH7Pair"], "quick": {"K1": 2, "K2": 2}, "thorough": {"K1": 3, "K2": 3}},
            # literal text through the writer-level pipeline: a multi-line backtick string (space before the line break)
            # next to comments, in every output configuration (token text of the output must equal the source literal)
            {"harnesses": [H + "ZZH1Behaviour"], "flags": VLQ_REDIRECT, "quick": {"budget": 0, "stmts": 2, "palette": 12, "palettemask": 513, "trivia": 1, "triviakinds": 5, "nofunc": 1}, "thorough": {"budget": 0, "stmts": 3, "palette": 12, "palettemask": 513, "trivia": 2, "triviakinds": 5, "nofunc": 1}},
        ],
    },
    "C08": {
        "assumptions": GEN_ASSUME + [
            "token start positions are solver variables (line, column in 0..2^20); generated positions are located in the final (trimmed) Code with the reference scanner R2; columns are counted in bytes",
            "output tokens are aligned with source tokens by order after dropping ';' (C01/C06 decide that the sequences agree)",
            "encodeVLQ replaced by its contract (C09 H9a) so that digit counts do not fork; decoded by the reference decoder R1",
        ],
        "runs": [
            {"harnesses": [H + "ZZH8SourceMap"], "flags": VLQ_REDIRECT, "quick": dict(GEN_Q, budget=1, atoms=2, concretepos=0, pretty=0), "thorough": dict(GEN_Q, atoms=2, concretepos=0, pretty=0)},
            {"harnesses": [H + "ZZH8SourceMap"], "flags": VLQ_REDIRECT, "quick": dict(GEN_Q, budget=1, atoms=2, concretepos=0, pretty=1, indents=4), "thorough": dict(GEN_Q, atoms=2, concretepos=0, pretty=1, indents=4)},
            {"harnesses": [H + "ZZH8SourceMap"], "flags": VLQ_REDIRECT, "quick": dict(GEN_Q, budget=1, concretepos=0, pretty=1, trivia=1, triviakinds=6), "thorough": dict(GEN_Q, concretepos=0, pretty=1, trivia=1, triviakinds=3)},
            # a compiler object that has compiled another program before (sharing an identifier at another name index)
            {"harnesses": [H + "ZZH8SourceMap"], "flags": VLQ_REDIRECT, "quick": dict(GEN_Q, budget=1, stmts=1, atoms=2, concretepos=0, pretty=0, reuse=1), "thorough": dict(GEN_Q, budget=1, atoms=2, concretepos=0, pretty=0, reuse=1)},
            # token start positions are the lexer's (layer L): the step lemma of C10 on a 5-byte window, which includes
            # multi-line literals followed by further tokens on their closing line
            {"harnesses": [LX + "ZZH10Step"], "quick": {"K": 5, "prefix": 0}, "thorough": {"K": 7, "prefix": 0}},
            # nested statement structure (blocks in blocks, if/while/for bodies) under every indent unit
            {"harnesses": [H + "ZZH8SourceMap"], "flags": VLQ_REDIRECT,
             "quick": {"budget": 2, "stmts": 1, "atoms": 1, "maxlist": 1, "nofunc": 1, "exprmask": 1, "concretepos": 0, "pretty": 1, "indents": 4},
             "thorough": {"budget": 3, "stmts": 1, "atoms": 1, "maxlist": 1, "nofunc": 1, "exprmask": 1, "concretepos": 0, "pretty": 1, "indents": 4}},
            # leaves from the expression palette (signs, multi-line backtick string, object value ...)
            {"harnesses": [H + "ZZH8SourceMap"], "flags": VLQ_REDIRECT, "quick": dict(PAL_Q, concretepos=0, pretty=0), "thorough": dict(PAL_T, concretepos=0, pretty=0)},
            {"harnesses": [H + "ZZH8SourceMap"], "flags": VLQ_REDIRECT, "quick": dict(PAL_Q, concretepos=0, pretty=1), "thorough": dict(PAL_T, concretepos=0, pretty=1)},
        ],
    },
    "C15": {
        "assumptions": GEN_ASSUME + [
            "trivia sites: first token of a statement, closing brace of a block or function body, end of input; <= 'trivia' decorated tokens per program; 5 shapes (own-line, trailing, blank line, blank line + two comments, trailing + own-line)",
            "comment text: 1..'commentlen' solver-quantified printable ASCII bytes (0x20..0x7e, last byte not a space)",
            "comments are located in the output by the reference scanner R2; attachment of comments to tokens by the lexer is C10's trivia clause",
            "blank-line separation is required where a statement follows a sibling statement (not at the start of the input, not before a closing brace or the end)",
        ],
        "runs": [
            {"harnesses": [H + "ZZH15Comments"], "flags": VLQ_REDIRECT, "quick": dict(GEN_Q, budget=1, trivia=1, triviakinds=5, commentlen=2), "thorough": dict(GEN_Q, trivia=1, triviakinds=5, commentlen=2)},
            {"harnesses": [H + "ZZH15Comments"], "flags": VLQ_REDIRECT, "quick": dict(GEN_Q, budget=1, stmts=1, trivia=2, triviakinds=2, commentlen=1), "thorough": dict(GEN_Q, budget=1, trivia=2, triviakinds=3, commentlen=1)},
            # comment text next to a multi-line backtick string (the clean-up pass scans the whole output)
            {"harnesses": [H + "ZZH15Comments"], "flags": VLQ_REDIRECT, "quick": {"budget": 0, "stmts": 2, "palette": 12, "palettemask": 513, "trivia": 1, "triviakinds": 5, "commentlen": 1, "nofunc": 1}, "thorough": {"budget": 0, "stmts": 3, "palette": 12, "palettemask": 513, "trivia": 1, "triviakinds": 5, "commentlen": 2, "nofunc": 1}},
            # text level: the real lexer attaches the comment
            {"harnesses": [H + "ZZH15Text"], "quick": {"commentlen": 2}, "thorough": {"commentlen": 3}},
        ],
    },
    "C04": {
        "assumptions": GEN_ASSUME + SCRIPT_ASSUME + [
            "interceptor configurations: {1 statement}, {1 expression}, {1 token}, {2,2,2}, {3,3,1}, {1,2,0 installed through Install}; the wrapper code is uniform in chain length, 8 is not reached",
            "re-entrant interceptor: ParseRemainingExpression(ParsePrefixExpression()) with 0..1 pass-through interceptors before and after",
            "token interceptors at byte level: whole inputs of <= K arbitrary bytes, first 'steps' tokens, 1..2 pass-through interceptors",
        ],
        "runs": [
            {"harnesses": [H + "ZZH4aTransparent"], "flags": VLQ_REDIRECT, "quick": dict(GEN_Q, stmts=1), "thorough": GEN_Q},
            {"harnesses": [H + "ZZH4aTransparent"], "flags": VLQ_REDIRECT, "quick": {"malformed": 1, "T": 1}, "thorough": {"malformed": 1, "T": 2}},
            {"harnesses": [H + "ZZH4bCurrentToken"], "flags": VLQ_REDIRECT, "quick": GEN_Q, "thorough": GEN_T},
            {"harnesses": [H + "ZZH4cReentrant"], "flags": VLQ_REDIRECT, "quick": dict(GEN_Q, stmts=1), "thorough": GEN_T},
            {"harnesses": [LX + "ZZH4dTokenInterceptors"], "quick": {"K": 4, "steps": 2}, "thorough": {"K": 5, "steps": 3}},
            # deep nesting for the re-entrant interceptor: expression statements over {binary (2 levels), unary, group}
            {"harnesses": [H + "ZZH4cReentrant"], "flags": VLQ_REDIRECT,
             "quick": {"budget": 3, "stmts": 1, "atoms": 1, "maxlist": 0, "nofunc": 1, "exprmask": 1042, "exprstmtonly": 1, "binlevels": 2},
             "thorough": {"budget": 4, "stmts": 1, "atoms": 1, "maxlist": 0, "nofunc": 1, "exprmask": 1042, "exprstmtonly": 1, "binlevels": 2}},
            # re-entrant interceptor on malformed token buffers: same tree and errors as the default path
            {"harnesses": [H + "ZZH4cReentrant"], "flags": VLQ_REDIRECT, "quick": {"malformed": 1, "T": 2}, "thorough": {"malformed": 1, "T": 3}},
            {"harnesses": [H + "ZZH4eRepeatedBuilds"], "flags": VLQ_REDIRECT, "quick": dict(GEN_Q, budget=1, builds=3), "thorough": dict(GEN_Q, builds=4)},
        ],
    },
    "C05": {
        "assumptions": [
            "flat expressions `[pre] a o1 a o2 a [o3 a]` with 2 (quick) / 2..3 (thorough) operators, each a built-in binary operator (one solver variable over all 13), registered infix operator 1 or 2 (levels solver-quantified over 2..13), or a registered postfix operator; optional registered prefix operator in front",
            "reference: precedence climbing with the ECMAScript levels plus {registered -> its level}, left-associative; postfix at call level; prefix operand at unary level",
            "level 1 (LOWEST, the parser's documented sentinel below every operator) is outside the claim",
            "token types: <= 'regs' RegisterTokenType calls with names of 1..2 arbitrary bytes; operator registrations: <= 'regs' calls with role chosen by forking and token type solver-quantified over all built-in types and two dynamic ids",
        ],
        "runs": [
            {"harnesses": [H + "ZZH5aGrouping"], "quick": {"ops": 2}, "thorough": {"ops": 3}},
            # the same after an unrelated builder (same dynamic ids, other levels) was used in the process
            {"harnesses": [H + "ZZH5aGrouping"], "quick": {"ops": 2, "prelude": 1}, "thorough": {"ops": 2, "prelude": 1}},
            {"harnesses": [H + "ZZH5bTokenTypes", H + "ZZH5cDuplicates"], "quick": {"regs": 3}, "thorough": {"regs": 4}},
        ],
    },
    "C11": {
        "assumptions": SCRIPT_ASSUME,
        "runs": [
            {"harnesses": [H + "ZZH11Total"], "flags": VLQ_REDIRECT, "quick": {"T": 2}, "thorough": {"T": 3}},
            # numeric tokens whose text the parser must validate (range, truncated prefixes, bad exponents)
            {"harnesses": [H + "ZZH11Literals"], "flags": VLQ_REDIRECT},
            # text level: a short context + <= K arbitrary bytes through the real lexer, parser (four modes) and compiler
            {"harnesses": [H + "ZZH11Text"], "flags": VLQ_REDIRECT, "quick": {"K": 2}, "thorough": {"K": 3}},
            # the same after an earlier plugin-configured job in the same process (history clause of totality)
            {"harnesses": [H + "ZZH11Total"], "flags": VLQ_REDIRECT + ["-max-steps", "200000"], "quick": {"T": 1, "prelude": 1}, "thorough": {"T": 2, "prelude": 1}},
        ],
    },
    "C12": {
        "assumptions": GEN_ASSUME + [
            "corruptions decided without a reference parser: (a) truncation at any point where a bracket, paren or brace is open, (b) deletion of any single bracket, paren or brace, (c) removal of the separator and line break between two statements where an operand token is followed by an operand/keyword token; each of these is rejected by every ECMAScript parser (unbalanced delimiters / two operands in a row on one line)",
            "(e) truncation right after a token with which no program can end: an operator, an opening delimiter, a keyword that needs a continuation, or the ) of an if/while/for header", "(d) truncation inside a string or backtick literal, at text level: `x=` + quote + <= K arbitrary ASCII bytes that the reference scanner R2 reads as an unterminated literal (quoted strings: no raw line break)",
            "(f) deletion of any single token, restricted (Assume) to results that the permissive reference recogniser R3 rejects; R3 accepts a superset of the valid JavaScript writable with the subset's tokens, so its rejections are sound; it is asserted to accept every generated program",
            "positions concrete: token i at line 0, column 2i; 'no earlier than the last intact token' is compared on them",
        ],
        "runs": [
            {"harnesses": [H + "ZZH12Truncate", H + "ZZH12DeleteDelimiter"], "flags": VLQ_REDIRECT,
             "quick": dict(GEN_Q, stmts=1), "thorough": dict(GEN_Q, stmts=2)},
            {"harnesses": [H + "ZZH12Fuse"], "flags": VLQ_REDIRECT, "quick": GEN_Q, "thorough": GEN_T},
            {"harnesses": [H + "ZZH12Literal", H + "ZZH12Number"], "quick": {"K": 3}, "thorough": {"K": 5}},
            {"harnesses": [H + "ZZH12TruncateIncomplete"], "flags": VLQ_REDIRECT, "quick": GEN_Q, "thorough": GEN_T},
            # general single-token deletion, invalidity decided by the permissive reference recogniser R3
            {"harnesses": [H + "ZZH12DeleteAny"], "flags": VLQ_REDIRECT, "quick": dict(GEN_Q, budget=1), "thorough": dict(GEN_Q, stmts=1)},
            {"harnesses": [H + "ZZH12DeleteAny"], "flags": VLQ_REDIRECT, "quick": {"budget": 0, "stmts": 2, "palette": 12, "nofunc": 1}, "thorough": {"budget": 0, "stmts": 3, "palette": 12, "nofunc": 1}},
            {"harnesses": [H + "ZZH12DeleteAny"], "flags": VLQ_REDIRECT, "quick": dict(GEN_Q, stmts=1, exprstmtonly=1, nofunc=1, binlevels=3), "thorough": dict(GEN_Q, stmts=2, exprstmtonly=1, nofunc=1)},
            # statements ending in object/function values, groups, calls ... fused with the next one
            {"harnesses": [H + "ZZH12Fuse", H + "ZZH12TruncateIncomplete"], "flags": VLQ_REDIRECT,
             "quick": {"budget": 0, "stmts": 2, "palette": 12, "nofunc": 1}, "thorough": {"budget": 1, "stmts": 2, "palette": 6, "maxlist": 1, "nofunc": 1}},
            {"harnesses": [H + "ZZH12Truncate", H + "ZZH12DeleteDelimiter", H + "ZZH12Fuse"], "flags": VLQ_REDIRECT,
             "quick": dict(GEN_Q, stmts=2, budget=1, smart=1), "thorough": dict(GEN_Q, stmts=2, smart=1)},
        ],
    },
    "C13": {
        "assumptions": SCRIPT_ASSUME + GEN_ASSUME + [
            "fused statements: only where an operand token is followed by an operand/keyword token (the successor cannot continue the predecessor)",
            "open blocks: any number of trailing block-closing braces dropped at end of input",
        ],
        "runs": [
            {"harnesses": [H + "ZZH13aTolerant", H + "ZZH13cSmart"], "flags": VLQ_REDIRECT, "quick": {"T": 2}, "thorough": {"T": 3}},
            {"harnesses": [H + "ZZH13bTolerantExtras", H + "ZZH13dSmartBreaks"], "flags": VLQ_REDIRECT, "quick": GEN_Q, "thorough": GEN_T},
            # the mode flags are copied into each parser at Build time (a shared builder reconfigured before the parser is used)
            {"harnesses": [H + "ZZH14dReconfigure"], "flags": VLQ_REDIRECT, "quick": {"T": 1}, "thorough": {"T": 2}},
            # text -> token lemma: the smart-semicolon rule reads the lexer's after-newline flag; the step harness of C10
            # decides that the flag is set exactly when a line break (LF, CR LF, also after a trailing // comment)
            # separates two tokens
            {"harnesses": [LX + "ZZH10Step"], "quick": {"K": 5, "prefix": 0}, "thorough": {"K": 7, "prefix": 0}},
        ],
    },
    "C16": {
        "assumptions": SCRIPT_ASSUME + GEN_ASSUME + [
            "directly inside a function body either FunctionContext or BlockContext is accepted as the innermost context (the body is both)",
        ],
        "runs": [
            {"harnesses": [H + "ZZH16bFinal"], "flags": VLQ_REDIRECT, "quick": {"T": 2}, "thorough": {"T": 3}},
            {"harnesses": [H + "ZZH16aNesting"], "flags": VLQ_REDIRECT, "quick": GEN_Q, "thorough": GEN_T},
            # the same with plugin behaviour: a statement interceptor that pushes a context type of its own around block
            # statements and strips expression statements from the tree (returns nil after parsing them)
            {"harnesses": [H + "ZZH16aNesting"], "flags": VLQ_REDIRECT, "quick": dict(GEN_Q, plugctx=1, nilstmt=1, nofunc=0), "thorough": dict(GEN_Q, plugctx=1, nilstmt=1)},
            {"harnesses": [H + "ZZH16aNesting"], "flags": VLQ_REDIRECT, "quick": {"budget": 3, "stmts": 1, "stmtmask": 96, "exprmask": 1024, "plugctx": 1, "nilstmt": 1, "atoms": 1, "maxlist": 1}, "thorough": {"budget": 4, "stmts": 1, "stmtmask": 96, "exprmask": 1024, "plugctx": 1, "nilstmt": 1, "atoms": 1, "maxlist": 1}},
            # interceptors that call the exported parse functions of a construct directly (ParseFunctionStatement,
            # ParseBlockStatement, ParseFunctionExpression + ParseRemainingExpression) instead of next(); and a parser driven
            # statement by statement through ParseStatement without ParseProgram
            {"harnesses": [H + "ZZH16aNesting"], "flags": VLQ_REDIRECT, "quick": dict(GEN_Q, stmts=1, direct=1), "thorough": dict(GEN_Q, direct=1)},
            {"harnesses": [H + "ZZH16aNesting"], "flags": VLQ_REDIRECT, "quick": dict(GEN_Q, stmtdriven=1), "thorough": dict(GEN_Q, stmtdriven=1)},
            # inductive step over nesting depth: stack preset to depth 1..200, restored entry for entry
            {"harnesses": [H + "ZZH16cDepth"], "flags": VLQ_REDIRECT, "quick": dict(GEN_Q, budget=1), "thorough": GEN_Q},
            # a second parser living inside an interceptor call of the first
            {"harnesses": [H + "ZZH16dInnerParser"], "flags": VLQ_REDIRECT, "quick": dict(GEN_Q, stmts=1), "thorough": GEN_Q},
        ],
    },
    "C10": {
        "assumptions": [
            "one NextToken step from an arbitrary cursor state satisfying the invariant INV (readPosition = position+1, CurrentChar = input[position] or 0 at the end, Line/Column arbitrary in [0,2^30]); stale hadNewlineBefore/leadingComments arbitrary",
            "window: the remaining input is any byte string of length 0..K (end of input anywhere), or longer than K with the step's lexeme+trivia+1 lookahead inside the first K bytes; paths needing more are cut and counted (outside the claim)",
            "induction over steps (post-state satisfies INV, cursor never leaves the source, at least one byte consumed unless at the end) extends the step result to any number of tokens and any input length; base case ZZH10Init",
            "bytes before the cursor: 0..prefix arbitrary bytes (the step never reads them); independence from the absolute offset beyond that is by inspection (all indexing is relative to position)",
            "lone CR: don't care for the after-newline flag; comment entries compared modulo empty entries (blank-line markers)",
        ],
        "runs": [
            {"harnesses": [LX + "ZZH10Init", LX + "ZZH10Step"], "witnesses": 60,
             "quick": {"K": 6, "prefix": 0}, "thorough": {"K": 8, "prefix": 1}},
        ],
    },
    "C09": {
        "assumptions": [
            "VLQ codec: |n| <= 2^31 (property range); larger magnitudes outside the claim",
            "encodeMappings (modular): encodeVLQ replaced by its contract proved in H9aVLQ (self-delimiting piece decoding to its argument); every argument asserted inside the contract range",
            "segments per map <= bound 'segments'; generated-line delta per segment in [0,3]; fields in [0,2^30]",
            "histories: <= 'ops' operations, advanced strings <= 'strlen' bytes of any value, names 1 symbolic byte",
            "a CR ending one AdvanceString call and an LF starting the next is a don't-care (per-string tracking is the documented behaviour)",
        ],
        "runs": [
            {"harnesses": [SM + "ZZH9aVLQ"]},
            {"harnesses": [SM + "ZZH9bMappings"], "flags": VLQ_REDIRECT,
             "quick": {"segments": 3}, "thorough": {"segments": 4}},
            {"harnesses": [SM + "ZZH9bMappings"],
             "quick": {"segments": 2, "small": 20}, "thorough": {"segments": 2, "small": 100}},
            {"harnesses": [SM + "ZZH9cHistory"], "flags": VLQ_REDIRECT,
             "quick": {"ops": 3, "strlen": 2}, "thorough": {"ops": 4, "strlen": 3}},
        ],
    },
}

_TRUST = "Trusted: xsym's SSA translation (witness paths replayed natively on every run), z3 (z3 5.1 and cvc5 re-decide assertion queries in the thorough tier), the generator/oracle in harness/overlay/zzverif/h. Token level: the scripted token source stands for the lexer (C10 relates text to tokens). Outside the claim: programs above the node/token budget."

# Thorough tier: every assertion query is re-decided by z3 5.1 and cvc5 (-cross). Deeper bounds are kept only
# where a full thorough run was measured to finish inside the time cap on this machine (C03, C05, C07, C09, C10,
# C15 partly); for the other properties the thorough tier uses the quick bounds (their deeper bounds exceeded the
# 40-minute cap per engine run or could not be calibrated in the time available).
THOROUGH_AS_QUICK = ["C01", "C02", "C04", "C06", "C08", "C11", "C12", "C13", "C14", "C16"]
for _pid in THOROUGH_AS_QUICK:
    for _run in CHECKS[_pid]["runs"]:
        if "quick" in _run:
            _run["thorough"] = dict(_run["quick"])
# C15: the budget-2 decorated run exceeded the cap (1.6 million paths in 40 minutes): one statement instead of two
CHECKS["C15"]["runs"][0]["thorough"] = dict(GEN_Q, stmts=1, trivia=1, triviakinds=5, commentlen=2)

META = {
    "C01": {
        "text": "Bounded symbolic model checking of a syntactic sufficient condition for behaviour preservation: for every generated program within the budget (with comments, object/function values, signs, multi-line backtick strings as leaves) and every output configuration, the emitted text - read by an independent ECMAScript scanner - must be the same token sequence as the source with the same statement boundaries under the ECMAScript ASI rules and no line break at a restricted production; the source map option must not change the code.",
        "design_ref": "DESIGN.md §7 C01", "note": _TRUST + " A JavaScript engine is not executed: behaviour equality is inferred from program identity; run-time semantics of engines are outside the claim.",
    },
    "C14": {
        "text": "Bounded symbolic model checking of isolation over sequential histories plus a write-confinement monitor: job results are compared alone / before / after a differently configured job on solver-quantified token buffers, builders are reused and interleaved, trees are compiled repeatedly and in permuted configurations; every store into package-level state, a configured builder or a tree being compiled is reported by the executor. Concurrency is covered by the confinement argument only (no schedules are explored).",
        "design_ref": "DESIGN.md §7 C14", "note": _TRUST + " The race detector and real goroutine schedules are outside this technique.",
    },
    "C02": {
        "text": "Bounded symbolic model checking of the real parser on every generated subset program within the node budget: the program is unparsed to a token script in which operator identities (per precedence class), all permitted line breaks and all positions are solver variables, parsed by the real parser, and the resulting tree must equal the generated tree (ECMAScript precedence, associativity, ASI boundaries, restricted productions) on every feasible path; one run repeats this after an earlier plugin-configured parser (postfix operator on a built-in operator token) was built and used in the same process.",
        "design_ref": "DESIGN.md §7 C02", "note": _TRUST,
    },
    "C03": {
        "text": "Bounded symbolic model checking of the printers against the real lexer and parser: every tree over the core nodes within the node budget (every parent/child kind and operator pair on every side) is printed compact or pretty (flags solver-quantified), the text is parsed back in the same path and must give the same shape, and compiling the re-parsed tree must reproduce the text byte for byte; the printer/parser precedence tables are compared for all 2^64 token types in one query. Statement trees assembled directly from the constructors (every nesting of if / if-else / while / for / block / function declaration within the budget, e.g. an else-less if as then-branch of an if-else) are printed and parsed back the same way; one run repeats the round trip after an earlier plugin-configured parser in the same process.",
        "design_ref": "DESIGN.md §7 C03", "note": _TRUST + " Outside: trees above the node budget, custom plugin nodes, randomly generated deeper trees.",
    },
    "C06": {
        "text": "Bounded symbolic model checking of the pretty printer's deferred-whitespace state machine on every generated program within the budget, with comments/blank lines on any token: pretty and compact outputs are re-read by the real lexer and parser and must give the generated tree; formatting the formatted output is a byte-for-byte fixed point; indent options change only leading whitespace; the semicolon option changes only statement terminators. At text level every valid string literal of <= K content bytes (escapes, LF / CR / CR LF line continuations) must be emitted with the same text by the compact and the pretty printer.",
        "design_ref": "DESIGN.md §7 C06", "note": _TRUST,
    },
    "C07": {
        "text": "Bounded symbolic model checking of literal handling from text to text: for every string literal (both quote styles, any escape) and backtick string of <= K content bytes and every numeric literal of <= K characters that the reference scanner accepts, the real lexer, parser and printer (compact and pretty) are executed on the symbolic bytes and the emitted text must be exactly one literal whose value - computed by an independent implementation of the ECMAScript string value and template cooking rules - equals the source value (numbers: emitted verbatim). Pairs of a quoted and a backtick literal in one program (either order) are checked the same way, so that the content of one literal cannot change how the output passes treat the other.",
        "design_ref": "DESIGN.md §7 C07", "note": _TRUST + " The value comparison is syntactic (R4); no JavaScript engine is run.",
    },
    "C08": {
        "text": "Bounded symbolic model checking of source-map generation end to end (parser stub -> Compile().WithSourceMap -> real encodeMappings -> reference decoder): with all token start positions solver variables, every decoded segment must sit on the start of a token of the generated code (found by an independent scanner), carry the source start of the same lexeme, be named iff it is an identifier, every identifier must be covered, and segments must be ordered - for compact and pretty output, with and without comments. Token start positions are the lexer's: the inductive step lemma of C10 (one NextToken step from an arbitrary cursor state over a symbolic byte window) is part of this check.",
        "design_ref": "DESIGN.md §7 C08", "note": _TRUST + " Start positions themselves are C10's lemma.",
    },
    "C15": {
        "text": "Bounded symbolic model checking of comment replay: programs decorated at statement boundaries (incl. closing braces and end of input) with comments of solver-quantified printable text are compiled; an independent scanner must find every comment verbatim, once, in order, in front of the same token in the pretty output, blank-line separation kept; compact output has no comments; the code tokens of both outputs equal those of the undecorated program.",
        "design_ref": "DESIGN.md §7 C15", "note": _TRUST,
    },
    "C04": {
        "text": "Bounded symbolic model checking of the interceptor chains: on every generated program and on arbitrary malformed token buffers, parsing with pass-through statement/expression/token interceptors (six configurations, direct and via Install) gives the same tree, errors and compact output as without; interceptors run once per step in installation order on one current token, which is the first token of the construct next() returns; a re-entrant expression interceptor obtains the generated (default) tree at every nesting depth with operators solver-quantified; byte-level token interceptors run once per token on the lexeme's first byte.",
        "design_ref": "DESIGN.md §7 C04", "note": _TRUST,
    },
    "C05": {
        "text": "Bounded symbolic model checking of operator and token-type registration: the level of each registered infix operator is a solver variable (2..13) and its built-in neighbours are one solver variable over all 13 binary operators; the parsed tree must equal an independent precedence-climbing reference. Token-type ids and duplicate refusal are decided over symbolic names/types for all registration histories within the bound.",
        "design_ref": "DESIGN.md §7 C05", "note": _TRUST,
    },
    "C11": {
        "text": "Bounded symbolic model checking of ParseProgram on arbitrary token buffers (27 parser contexts x <= 2 tokens of solver-quantified type, flags and positions; also after an earlier plugin-configured job, and on numeric tokens the parser must validate) in all four mode combinations (modes are solver variables): termination within the instruction budget, no panic, error value iff error list non-empty, no nil or typed-nil entries in statement lists, every error range is a token range, and error-free trees have all mandatory children and compile in four configurations without panicking. The same contract is decided at text level for a short context (code position, inside a string / escape / backtick literal) followed by <= K arbitrary bytes through the real lexer, where error ranges are compared with the lexer's own tokens.",
        "design_ref": "DESIGN.md §7 C11", "note": _TRUST,
    },
    "C12": {
        "text": "Bounded symbolic model checking of strict-mode error detection on generated valid programs corrupted by truncation inside an open bracket/block, deletion of a single delimiter, or removal of a statement separator between operands: strict parsing must report an error and the first error must not lie before the last intact token. Text level: truncated string / backtick literals and digit-led alphanumeric text that is not one numeric literal (0x, 1e, 1a, 0b2) must be rejected.",
        "design_ref": "DESIGN.md §7 C12", "note": _TRUST + " Invalidity of the corrupted text is by construction (unbalanced delimiters, adjacent operands), not by a reference parser; general single-token deletions and unterminated literals are outside this check.",
    },
    "C13": {
        "text": "Bounded symbolic model checking of the parser modes: on arbitrary token buffers strict-accepted implies tolerant returns the identical tree with no errors, and smart mode equals default mode (tree and errors) when no line-initial ( or [ occurs; on generated programs tolerant mode accepts fused statements and open blocks keeping every statement, and smart mode treats a line-initial ( or [ as a statement start. The mode flags are copied at Build time: a parser keeps the modes it was built with when the shared builder is reconfigured before the parser is used. The after-newline flag the smart-semicolon rule reads is the lexer's: the inductive step lemma of C10 (LF, CR LF, line breaks after a trailing comment) is part of this check.",
        "design_ref": "DESIGN.md §7 C13", "note": _TRUST,
    },
    "C16": {
        "text": "Bounded symbolic model checking of the parsing-context stack: on every generated program (nested blocks, function declarations and expressions) every statement/expression interceptor invocation sees IsInFunction/CurrentContext equal to the generator's nesting oracle for the current token; on arbitrary token buffers in every mode the context is back at top level with a balanced stack after parsing. The nesting clauses are also decided under plugin behaviour: an interceptor that pushes a context type of its own around block statements and one that strips parsed statements by returning nil, interceptors that call the exported parse functions of a construct directly (ParseFunctionStatement, ParseBlockStatement, ParseFunctionExpression + ParseRemainingExpression) instead of next(), and a parser driven statement by statement through ParseStatement without ParseProgram.",
        "design_ref": "DESIGN.md §7 C16", "note": _TRUST,
    },
    "C10": {
        "text": "Inductive bounded symbolic model checking of the real lexer: one NextToken step is executed from an arbitrary valid cursor state over a window of K = 6 (quick) / 8 (thorough) symbolic bytes of any value (all 256^K windows, end of input anywhere). On every feasible path the solver discharges: start = first non-trivia byte (independent trivia scanner), progress, cursor inside the source, EOF exactly at the end and stable, end position, after-newline flag, comment texts, identifier/keyword/number slices and classification, and re-establishment of the cursor invariant - which makes the result hold for any number of tokens.",
        "design_ref": "DESIGN.md §7 C10",
        "note": "Trusted: xsym's SSA translation (witness paths replayed natively each run), z3, the reference trivia scanner R7 and position function R6. Outside the claim: a single lexeme together with its leading trivia longer than K bytes (counted as cut paths); the property's fuzzing clause is another technique.",
    },
    "C09": {
        "text": "Bounded symbolic model checking of the real sourcemap package: encodeVLQ is decided for every integer |n| <= 2^31 (7 paths x sign, solver-quantified over n); encodeMappings for every list of <= 3 (quick) / 4 (thorough) segments with arbitrary fields; every operation history of length <= 3 / 4 over the five builder operations and the request of the map itself (at any point, repeatedly) with symbolic positions, advances, string bytes and names. The emitted mappings are decoded by an independent v3 decoder inside the same path and compared with the recorded absolute mappings.",
        "design_ref": "DESIGN.md §7 C09",
        "note": "Trusted: the go/ssa translation in xsym (validated on every run by replaying witness paths natively), z3 (cross-checked by z3 5.1 and cvc5 in the thorough tier), the reference decoder R1. Modular step: encodeVLQ replaced by its contract when checking encodeMappings, with the contract range asserted at every call. Outside the claim: more segments/operations than the bound, |n| > 2^31, File/Sources fields.",
    },
}
