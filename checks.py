# Per-property harness runs. "params" are harness bounds (sym.Param), merged
# with the tier's overrides; "flags" are engine flags.
SM = "github.com/xjslang/xjs/sourcemap."
VLQ_REDIRECT = ["-redirect", SM + "encodeVLQ=" + SM + "zzVLQOpaque"]

CHECKS = {
    "C09": {
        "assumptions": [
            "VLQ codec: |n| <= 2^31 (property range); larger magnitudes outside the claim",
            "encodeMappings (modular): encodeVLQ replaced by its contract proved in H9aVLQ (self-delimiting piece decoding to its argument); every argument asserted inside the contract range",
            "segments per map <= bound 'segments'; generated-line delta per segment in [0,3]; fields in [0,2^30]",
            "histories: <= 'ops' operations, advanced strings <= 'strlen' bytes of any value, names 1 symbolic byte",
            "a CR ending one AdvanceString call and an LF starting the next is a don't-care (per-string tracking is the documented behaviour)",
        ],
        "runs": [
            {"harnesses": [SM + "ZZH9aVLQ"]},
            {"harnesses": [SM + "ZZH9bMappings"], "flags": VLQ_REDIRECT,
             "quick": {"segments": 3}, "thorough": {"segments": 4}},
            {"harnesses": [SM + "ZZH9bMappings"],
             "quick": {"segments": 2, "small": 20}, "thorough": {"segments": 2, "small": 600}},
            {"harnesses": [SM + "ZZH9cHistory"], "flags": VLQ_REDIRECT,
             "quick": {"ops": 3, "strlen": 2}, "thorough": {"ops": 4, "strlen": 3}},
        ],
    },
}

META = {
    "C09": {
        "text": "Bounded symbolic model checking of the real sourcemap package: encodeVLQ is decided for every integer |n| <= 2^31 (7 paths x sign, solver-quantified over n); encodeMappings for every list of <= 3 (quick) / 4 (thorough) segments with arbitrary fields; every operation history of length <= 3 / 4 over the five builder operations with symbolic positions, advances, string bytes and names. The emitted mappings are decoded by an independent v3 decoder inside the same path and compared with the recorded absolute mappings.",
        "design_ref": "DESIGN.md §7 C09",
        "note": "Trusted: the go/ssa translation in xsym (validated on every run by replaying witness paths natively), z3 (cross-checked by z3 5.1 and cvc5 in the thorough tier), the reference decoder R1. Modular step: encodeVLQ replaced by its contract when checking encodeMappings, with the contract range asserted at every call. Outside the claim: more segments/operations than the bound, |n| > 2^31, File/Sources fields.",
    },
}
