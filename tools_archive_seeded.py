#!/usr/bin/env python3
"""Copies confirmed seeded changes from /tmp/wt/out into /verif/seeded/<id>/ with a meta.json that
records what was confirmed and which check caught it (from the tools_seeded.sh logs given as arguments)."""
import json, os, re, shutil, sys
last = {}
for log in sys.argv[1:]:
    for line in open(log):
        m = re.match(r"(C\d\d-\d): baseline=(\w+) demo\(clean\)=(\w+) demo\(mutant\)=(\w+) check_exit=(\d+) (\d+) violation lines; first:\s*(.*)", line)
        if m:
            name = m.group(1)
            prop_checked = None
            last.setdefault(name, []).append(m.groups())
rows = []
for name in sorted(last):
    src = "/tmp/wt/out/" + name
    if not os.path.isdir(src):
        continue
    dst = os.path.join("/verif/seeded", name)
    os.makedirs(dst, exist_ok=True)
    for f in ("patch.diff", "demo_test.go"):
        shutil.copy(os.path.join(src, f), os.path.join(dst, f))
    try:
        meta = json.load(open(os.path.join(src, "meta.json")))
    except Exception:
        meta = {}
    runs = []
    detected = False
    for g in last[name]:
        _, base, clean, mut, rc, nviol, first = g
        runs.append({"baseline_with_change": base, "demo_on_clean_tree": clean, "demo_with_change": mut,
                     "check_exit": int(rc), "first_violation": first.strip()[:300]})
        if rc == "1":
            detected = True
    meta["confirmed_by"] = "tools_seeded.sh in a scratch worktree of /repo HEAD: baseline suite with the change, demonstration on the clean tree and with the change, then ./check <property> (quick tier) with VERIF_REPO pointing at the worktree"
    meta["evaluations"] = runs
    meta["detected_by_quick_check"] = detected
    json.dump(meta, open(os.path.join(dst, "meta.json"), "w"), indent=1)
    rows.append((name, meta.get("summary", "")[:110], detected, runs[-1]["first_violation"][:90]))
for r in rows:
    print("| %s | %s | %s | %s |" % (r[0], r[1].replace("|", "/"), "caught" if r[2] else "MISSED", r[3].replace("|", "/")))
