#!/bin/bash
# tools_confirm.sh <name>...  confirms seeded changes from /tmp/wt/out/<name> in a scratch worktree without running a check:
# baseline suite with the change, demonstration on the clean tree and with the change. Appends to /tmp/wt/logs/confirm.log
export GOFLAGS=-mod=mod GOPROXY=off GOSUMDB=off GOTOOLCHAIN=local
for N in "$@"; do
  M=/tmp/wt/out/$N; DD=$(jq -r .demo_dir $M/meta.json)
  RUN=$(grep -o "^func Test[A-Za-z0-9_]*" $M/demo_test.go | sed 's/func //' | paste -sd'|'); RUN="^(${RUN})\$"
  WT=/tmp/wt/confirm-$N
  git -C /repo worktree add --detach $WT HEAD >/dev/null 2>&1 || { echo "$N: worktree failed"; continue; }
  cd $WT
  if ! git apply --check $M/patch.diff 2>/dev/null; then echo "$N: PATCH DOES NOT APPLY" >> /tmp/wt/logs/confirm.log; cd /; git -C /repo worktree remove --force $WT; continue; fi
  cp $M/demo_test.go $DD/zz_demo_test.go
  CLEAN=$( (go test -vet=off -count=1 -run "$RUN" ./$DD >/dev/null 2>&1 && echo pass) || echo fail)
  rm -f $DD/zz_demo_test.go
  git apply $M/patch.diff
  BASE=$( (go build ./... >/dev/null 2>&1 && go test -vet=off -count=1 ./... >/dev/null 2>&1 && echo pass) || echo FAIL)
  cp $M/demo_test.go $DD/zz_demo_test.go
  MUT=$( (go test -vet=off -count=1 -run "$RUN" ./$DD >/dev/null 2>&1 && echo pass) || echo fail)
  cd /; git -C /repo worktree remove --force $WT >/dev/null 2>&1
  echo "$N: baseline=$BASE demo(clean)=$CLEAN demo(mutant)=$MUT" >> /tmp/wt/logs/confirm.log
done
