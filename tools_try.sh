#!/bin/bash
# tools_try.sh <seeded-name|clean> <PID> <run-index> '<json bounds>'   one harness run against a scratch worktree (calibration)
N=$1; PID=$2; RUN=$3; J=${4:-{\}}
WT=/tmp/wt/try-$N-$$
export GOFLAGS=-mod=mod GOPROXY=off GOSUMDB=off GOTOOLCHAIN=local
git -C /repo worktree add --detach $WT HEAD >/dev/null 2>&1
if [ "$N" != clean ]; then
  P=/tmp/wt/out/$N/patch.diff; [ -f $P ] || P=/verif/seeded/$N/patch.diff
  git -C $WT apply $P || { echo "patch failed"; git -C /repo worktree remove --force $WT; exit 9; }
fi
EV=$(mktemp -d /tmp/wt/try-ev.XXXX)
S=$(date +%s)
VERIF_REPO=$WT VERIF_EVIDENCE_DIR=$EV VERIF_RUNS=$RUN VERIF_OVERRIDE="{\"$RUN\": $J}" ./check $PID >$EV/out 2>$EV/err
RC=$?
echo "TRY $N $PID run=$RUN $J exit=$RC wall=$(( $(date +%s)-S ))s states=$(jq -c .coverage.states $EV/$PID.json 2>/dev/null)"
grep -A1 '^VIOLATION\|^INCONCLUSIVE\|^KNOWN' $EV/out | cut -c1-300 | head -8
[ $RC -ge 2 ] && tail -5 $EV/err | cut -c1-300
rm -rf $EV; git -C /repo worktree remove --force $WT >/dev/null 2>&1
