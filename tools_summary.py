#!/usr/bin/env python3
import json,sys,collections
r=json.load(open(sys.argv[1] if len(sys.argv)>1 else '/tmp/r.json'))
print({k.split('/')[-1]:v for k,v in r['ends'].items()}, 'wall %.1fs'%r['wall_s'], 'solver %.0fs'%r['stats']['solver_time_s'])
if r['unsupported']: print('UNSUPPORTED', {k[-160:]:v for k,v in r['unsupported'].items() if ': cut: ' not in k})
if r['inconclusive']: print('INCONCLUSIVE', r['inconclusive'][:3])
print('violations', {k.split('/')[-1]:v for k,v in r['violation_counts'].items()})
seen=collections.Counter()
n=int(sys.argv[2]) if len(sys.argv)>2 else 6
for v in r['violations']:
    seen[v['label']]+=1
    if seen[v['label']]<=n: print(' ',v['label'],'|',' ; '.join(v['obs'])[:400],'|',v.get('msg') or '',v['where'][-60:])
