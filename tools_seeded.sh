#!/bin/bash
# tools_seeded.sh <mutant-dir> <property> <demo-package-dir>
# Confirms a seeded change in a scratch worktree (baseline passes, demo fails
# with it and passes without it) and runs the property's quick check against it.
set -u
M=$1; ID=$2; DEMODIR=$3
NAME=$(basename $M)
RUN=$(grep -o "^func Test[A-Za-z0-9_]*" $M/demo_test.go | sed 's/func //' | paste -sd'|')
RUN="^(${RUN})\$"
WT=/tmp/wt/eval-$NAME
export GOFLAGS=-mod=mod GOPROXY=off GOSUMDB=off GOTOOLCHAIN=local
git -C /repo worktree remove --force $WT >/dev/null 2>&1
git -C /repo worktree add --detach $WT HEAD >/dev/null 2>&1 || { echo "$NAME: worktree failed"; exit 9; }
cd $WT
if ! git apply --check $M/patch.diff 2>/dev/null; then echo "$NAME: PATCH DOES NOT APPLY to current HEAD"; git -C /repo worktree remove --force $WT; exit 8; fi
# demo on clean tree
cp $M/demo_test.go $DEMODIR/zz_demo_test.go
CLEAN=$( (go test -vet=off -count=1 -run "$RUN" ./$DEMODIR >/dev/null 2>&1 && echo pass) || echo fail)
rm -f $DEMODIR/zz_demo_test.go
git apply $M/patch.diff
BASE=$( (go build ./... >/dev/null 2>&1 && go test -vet=off -count=1 ./... >/dev/null 2>&1 && echo pass) || echo FAIL)
cp $M/demo_test.go $DEMODIR/zz_demo_test.go
MUT=$( (go test -vet=off -count=1 -run "$RUN" ./$DEMODIR >/dev/null 2>&1 && echo pass) || echo fail)
rm -f $DEMODIR/zz_demo_test.go
cd ${VERIF_SNAP:-/verif}
OUT=$(VERIF_REPO=$WT VERIF_EVIDENCE_DIR=/tmp/wt/evidence-$NAME timeout 1500 ./check $ID 2>/dev/null)
RC=$?
echo "$NAME: baseline=$BASE demo(clean)=$CLEAN demo(mutant)=$MUT check_exit=$RC $(echo "$OUT" | grep -c '^VIOLATION') violation lines; first: $(echo "$OUT" | grep -A1 '^VIOLATION' | sed -n 2p | cut -c1-220)"
echo "$OUT" | grep "^INCONCLUSIVE" | head -2 | cut -c1-200
git -C /repo worktree remove --force $WT >/dev/null 2>&1
