#!/bin/sh
# Builds the symbolic executor offline from files on disk.
set -e
cd "$(dirname "$0")"
export GOFLAGS=-mod=mod GOPROXY=off GOSUMDB=off GOTOOLCHAIN=local
mkdir -p build evidence replays
(cd engine && go build -o ../build/xsym .)
echo "xsym built"
