#!/bin/sh
# Builds the symbolic executor offline from files on disk.
set -e
cd "$(dirname "$0")"
export GOFLAGS=-mod=mod GOPROXY=off GOSUMDB=off GOTOOLCHAIN=local
mkdir -p build evidence replays
(cd engine && go build -o ../build/xsym .)
echo "xsym built"
# differential test of the string-function models against the standard library
build/xsym -overlay harness/overlay -write-overlay build/overlay.json
(cd /repo && GOFLAGS=-mod=readonly go test -c -vet=off -o /verif/build/sym.test -overlay /verif/build/overlay.json ./zzverif/sym)
build/sym.test >/dev/null && echo "models validated"
