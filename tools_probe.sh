#!/bin/bash
# tools_probe.sh <tier> <cap> "<PID> <run> <json-bounds>" ...   calibration of deeper bounds (not a registered check)
# prints one line per probe: exit code, wall time, paths; evidence goes to a scratch directory.
TIER=$1; CAP=$2; shift 2
[ -x build/xsym ] || ./setup.sh >/dev/null 2>&1
for spec in "$@"; do
  set -- $spec
  PID=$1; RUN=$2; shift 2; J="$*"
  EV=$(mktemp -d /tmp/probe-ev.XXXX)
  S=$(date +%s)
  VERIF_EVIDENCE_DIR=$EV VERIF_RUNS=$RUN VERIF_OVERRIDE="{\"$RUN\": $J}" VERIF_CAP=$CAP ./check $PID --tier $TIER >$EV/out 2>$EV/err
  RC=$?
  E=$(date +%s)
  echo "PROBE $PID run=$RUN $J tier=$TIER exit=$RC wall=$((E-S))s states=$(jq -c .coverage.states $EV/$PID.json 2>/dev/null) $(grep -h -m2 'INCONCLUSIVE\|VIOLATION' $EV/out | cut -c1-160 | tr '\n' ' ')"
  rm -rf $EV
done
