package sourcemap

import "github.com/xjslang/xjs/zzverif/sym"

const zzB64 = "ABCDEFGHIJKLMNOPQRSTUVWXYZabcdefghijklmnopqrstuvwxyz0123456789+/"

// zzB64Val is the reference decoder's digit table lookup (independent of
// encodeVLQ's indexing: a comparison chain over the alphabet).
func zzB64Val(c byte) int {
	if c >= 'A' && c <= 'Z' {
		return int(c - 'A')
	}
	if c >= 'a' && c <= 'z' {
		return int(c-'a') + 26
	}
	if c >= '0' && c <= '9' {
		return int(c-'0') + 52
	}
	if c == '+' {
		return 62
	}
	if c == '/' {
		return 63
	}
	return -1
}

// zzDecodeVLQ decodes one Base64 VLQ value starting at s[i] (R1).
// It returns the value, the index after it and ok.
func zzDecodeVLQ(s string, i int) (int, int, bool) {
	result := 0
	shift := uint(0)
	for {
		if i >= len(s) {
			return 0, i, false
		}
		d := zzB64Val(s[i])
		if d < 0 {
			return 0, i, false
		}
		i++
		result |= (d & 31) << shift
		shift += 5
		if d&32 == 0 {
			break
		}
		if shift > 60 {
			return 0, i, false
		}
	}
	neg := result&1 == 1
	result >>= 1
	if neg {
		result = -result
	}
	return result, i, true
}

// ZZH9aVLQ: encodeVLQ contract for every n with |n| <= 2^31.
func ZZH9aVLQ() {
	n := sym.Int("n")
	sym.Assume(sym.And(n >= -(1<<31), n <= 1<<31))
	s := encodeVLQ(n)
	sym.Observe("enc", n, s)
	sym.Assert(len(s) >= 1 && len(s) <= 7, "vlq-length")
	m, used, ok := zzDecodeVLQ(s, 0)
	sym.Assert(ok, "vlq-decodes")
	sym.Assert(used == len(s), "vlq-self-delimiting")
	sym.Assert(m == n, "vlq-roundtrip")
	sym.Cover("end")
}

// ---------------------------------------------------------------- R1: mappings decoder

type zzSeg struct {
	GenLine, GenCol, Src, SrcLine, SrcCol, Name int
	HasName                                     bool
}

// zzSide is the side table of the modular encodeVLQ stand-in: the arguments
// of its calls in call order.
var zzSide []int

// zzVLQOpaque is the modular stand-in for encodeVLQ used by the executor
// (-redirect): an atomic, self-delimiting piece that carries its argument.
// The piece is two bytes 0x80|hi, 0x80|lo holding the index of the argument in
// zzSide (so it never collides with ';' or ',' and pieces stay distinguishable
// if the caller reorders, drops or repeats them). Its argument must lie in the
// range for which ZZH9aVLQ shows the real encoder correct (sign/magnitude and
// the 5-bit digits are that harness's business).
func zzVLQOpaque(n int) string {
	sym.Assert(sym.And(n >= -(1<<31), n <= 1<<31), "vlq-argument-in-contract-range")
	idx := len(zzSide)
	zzSide = append(zzSide, n)
	return string([]byte{byte(0x80 | (idx >> 6)), byte(0x80 | (idx & 63))})
}

// zzDigit returns the 6-bit VLQ digit at s[i] or -1 (raw: opaque pieces).
func zzDigit(c byte, raw bool) int {
	if raw {
		if c >= 128 {
			return int(c) & 63
		}
		return -1
	}
	return zzB64Val(c)
}

func zzDecodeVLQAt(s string, i int, raw bool) (int, int, bool) {
	if !raw {
		return zzDecodeVLQ(s, i)
	}
	if i+2 > len(s) || s[i] < 128 || s[i+1] < 128 {
		return 0, i, false
	}
	idx := (int(s[i])&63)<<6 | int(s[i+1])&63
	if idx >= len(zzSide) {
		return 0, i, false
	}
	return zzSide[idx], i + 2, true
}

// zzDecodeMappings is an independent Source Map v3 "mappings" decoder.
func zzDecodeMappings(s string, raw bool) ([]zzSeg, bool) {
	var out []zzSeg
	line, genCol, src, srcLine, srcCol, name := 0, 0, 0, 0, 0, 0
	i := 0
	for i < len(s) {
		if s[i] == ';' {
			line++
			genCol = 0
			i++
			continue
		}
		if s[i] == ',' {
			i++
			continue
		}
		var f [5]int
		n := 0
		for n < 5 && i < len(s) && s[i] != ';' && s[i] != ',' {
			v, j, ok := zzDecodeVLQAt(s, i, raw)
			if !ok {
				return nil, false
			}
			f[n] = v
			n++
			i = j
		}
		if n != 4 && n != 5 && n != 1 {
			return nil, false
		}
		if i < len(s) && s[i] != ';' && s[i] != ',' {
			return nil, false
		}
		genCol += f[0]
		seg := zzSeg{GenLine: line, GenCol: genCol, Src: -1}
		if n >= 4 {
			src += f[1]
			srcLine += f[2]
			srcCol += f[3]
			seg.Src, seg.SrcLine, seg.SrcCol = src, srcLine, srcCol
		}
		if n == 5 {
			name += f[4]
			seg.Name, seg.HasName = name, true
		}
		out = append(out, seg)
	}
	return out, true
}

func zzRange(x, lo, hi int) bool { return sym.And(x >= lo, x <= hi) }

// ZZH9bMappings: encodeMappings on k arbitrary segments decodes to them.
// Modular run: encodeVLQ redirected to zzVLQOpaque (contract of H9a).
// Non-modular twin: real encodeVLQ, small field range (param "small").
func ZZH9bMappings() {
	k := sym.Param("segments", 3)
	small := sym.Param("small", 0)
	lim := 1 << 30
	if small > 0 {
		lim = small
	}
	m := New()
	line := 0
	for i := 0; i < k; i++ {
		dl := sym.Int("dline")
		sym.Assume(zzRange(dl, 0, 3))
		line += dl
		mp := Mapping{
			GeneratedLine:   line,
			GeneratedColumn: sym.Int("gencol"),
			SourceColumn:    sym.Int("srccol"),
		}
		if small == 0 {
			mp.SourceLine = sym.Int("srcline")
			mp.NameIndex = sym.Int("name")
			mp.HasName = sym.Bool("hasname")
		}
		sym.Assume(zzRange(mp.GeneratedColumn, 0, lim))
		sym.Assume(zzRange(mp.SourceLine, 0, lim))
		sym.Assume(zzRange(mp.SourceColumn, 0, lim))
		sym.Assume(zzRange(mp.NameIndex, 0, lim))
		m.mappings = append(m.mappings, mp)
	}
	sm := m.SourceMap()
	sym.Assert(sm.Version == 3, "version-3")
	raw := sym.Symbolic() && small == 0
	segs, ok := zzDecodeMappings(sm.Mappings, raw)
	sym.Assert(ok, "mappings-decodable")
	sym.Assert(len(segs) == k, "segment-count")
	for i := 0; i < k; i++ {
		want := m.mappings[i]
		got := segs[i]
		sym.Observe("seg", got.GenLine, got.GenCol, got.Src, got.SrcLine, got.SrcCol, got.HasName)
		sym.Assert(got.GenLine == want.GeneratedLine, "generated-line")
		sym.Assert(got.GenCol == want.GeneratedColumn, "generated-column")
		sym.Assert(got.Src == 0, "source-index")
		sym.Assert(got.SrcLine == want.SourceLine, "source-line")
		sym.Assert(got.SrcCol == want.SourceColumn, "source-column")
		sym.Assert(got.HasName == want.HasName, "has-name")
		if want.HasName {
			sym.Assert(got.Name == want.NameIndex, "name-index")
		}
	}
	sym.Cover("end")
}

// ZZH9cHistory: any history of builder operations decodes to the recorded
// absolute mappings; position tracking per R6; names first-seen.
func ZZH9cHistory() {
	nops := sym.Param("ops", 3)
	slen := sym.Param("strlen", 2)
	m := New()
	line, col := 0, 0
	var want []zzSeg
	var names []string
	// the map may be requested at any point of the history (and more than once):
	// every request must decode to the mappings recorded up to then
	verify := func() {
		sm := m.SourceMap()
		sym.Assert(sm.Version == 3, "version-3")
		sym.Assert(len(sm.Names) == len(names), "names-count")
		for j := range names {
			if j < len(sm.Names) {
				sym.Assert(sm.Names[j] == names[j], "names-first-seen-order")
			}
		}
		raw := sym.Symbolic()
		segs, ok := zzDecodeMappings(sm.Mappings, raw)
		sym.Assert(ok, "mappings-decodable")
		sym.Assert(len(segs) == len(want), "segment-count")
		for i := range want {
			g, w := segs[i], want[i]
			sym.Observe("seg", g.GenLine, g.GenCol, g.SrcLine, g.SrcCol, g.HasName, g.Name)
			sym.Assert(g.GenLine == w.GenLine, "generated-line")
			sym.Assert(g.GenCol == w.GenCol, "generated-column")
			if len(want) > 0 {
				sym.Assert(g.Src == 0, "source-index")
			}
			sym.Assert(g.SrcLine == w.SrcLine, "source-line")
			sym.Assert(g.SrcCol == w.SrcCol, "source-column")
			sym.Assert(g.HasName == w.HasName, "has-name")
			if w.HasName {
				sym.Assert(g.Name == w.Name, "name-index")
			}
		}
	}
	for i := 0; i < nops; i++ {
		switch sym.Choose("op", 6) {
		case 0:
			sl, sc := sym.Int("srcline"), sym.Int("srccol")
			sym.Assume(sym.And(zzRange(sl, 0, 1<<30), zzRange(sc, 0, 1<<30)))
			m.AddMapping(sl, sc)
			want = append(want, zzSeg{GenLine: line, GenCol: col, SrcLine: sl, SrcCol: sc})
		case 1:
			sl, sc := sym.Int("srcline"), sym.Int("srccol")
			sym.Assume(sym.And(zzRange(sl, 0, 1<<30), zzRange(sc, 0, 1<<30)))
			name := sym.String("name", sym.Choose("namelen", 2)) // empty names included
			m.AddNamedMapping(sl, sc, name)
			idx := -1
			for j, nm := range names {
				if idx < 0 && nm == name {
					idx = j
				}
			}
			if idx < 0 {
				idx = len(names)
				names = append(names, name)
			}
			want = append(want, zzSeg{GenLine: line, GenCol: col, SrcLine: sl, SrcCol: sc, Name: idx, HasName: true})
		case 2:
			n := sym.Int("advance")
			sym.Assume(zzRange(n, 0, 1<<20))
			m.AdvanceColumn(n)
			col += n
		case 3:
			l := sym.Choose("len", slen+1)
			s := sym.String("text", l)
			m.AdvanceString(s)
			// R6: LF, CRLF and lone CR are one line break each
			breaks, after := 0, 0
			for j := 0; j < len(s); j++ {
				if s[j] == '\n' || (s[j] == '\r' && !(j+1 < len(s) && s[j+1] == '\n')) {
					breaks++
					after = j + 1
				}
			}
			if breaks > 0 {
				line += breaks
				col = len(s) - after
			} else {
				col += len(s)
			}
		case 4:
			m.AdvanceLine()
			line++
			col = 0
		case 5:
			verify()
		}
	}
	verify()
	sym.Cover("end")
}

// ZZSeg is a decoded segment (exported for the writer-level harnesses).
type ZZSeg struct {
	GenLine, GenCol, Src, SrcLine, SrcCol, Name int
	HasName                                     bool
}

// ZZDecode decodes a mappings string with the reference decoder R1. raw: the
// string was produced under the modular encodeVLQ stand-in (executor only).
func ZZDecode(mappings string, raw bool) ([]ZZSeg, bool) {
	segs, ok := zzDecodeMappings(mappings, raw)
	out := make([]ZZSeg, len(segs))
	for i, s := range segs {
		out[i] = ZZSeg{s.GenLine, s.GenCol, s.Src, s.SrcLine, s.SrcCol, s.Name, s.HasName}
	}
	return out, ok
}
