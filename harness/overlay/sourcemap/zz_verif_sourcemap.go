package sourcemap

import "github.com/xjslang/xjs/zzverif/sym"

const zzB64 = "ABCDEFGHIJKLMNOPQRSTUVWXYZabcdefghijklmnopqrstuvwxyz0123456789+/"

// zzB64Val is the reference decoder's digit table lookup (independent of
// encodeVLQ's indexing: a comparison chain over the alphabet).
func zzB64Val(c byte) int {
	if c >= 'A' && c <= 'Z' {
		return int(c - 'A')
	}
	if c >= 'a' && c <= 'z' {
		return int(c-'a') + 26
	}
	if c >= '0' && c <= '9' {
		return int(c-'0') + 52
	}
	if c == '+' {
		return 62
	}
	if c == '/' {
		return 63
	}
	return -1
}

// zzDecodeVLQ decodes one Base64 VLQ value starting at s[i] (R1).
// It returns the value, the index after it and ok.
func zzDecodeVLQ(s string, i int) (int, int, bool) {
	result := 0
	shift := uint(0)
	for {
		if i >= len(s) {
			return 0, i, false
		}
		d := zzB64Val(s[i])
		if d < 0 {
			return 0, i, false
		}
		i++
		result |= (d & 31) << shift
		shift += 5
		if d&32 == 0 {
			break
		}
		if shift > 60 {
			return 0, i, false
		}
	}
	neg := result&1 == 1
	result >>= 1
	if neg {
		result = -result
	}
	return result, i, true
}

// ZZH9aVLQ: encodeVLQ contract for every n with |n| <= 2^31.
func ZZH9aVLQ() {
	n := sym.Int("n")
	sym.Assume(sym.And(n >= -(1<<31), n <= 1<<31))
	s := encodeVLQ(n)
	sym.Observe("enc", n, s)
	sym.Assert(len(s) >= 1 && len(s) <= 7, "vlq-length")
	m, used, ok := zzDecodeVLQ(s, 0)
	sym.Assert(ok, "vlq-decodes")
	sym.Assert(used == len(s), "vlq-self-delimiting")
	sym.Assert(m == n, "vlq-roundtrip")
	sym.Cover("end")
}
