package lexer

import (
	"github.com/xjslang/xjs/token"
	"github.com/xjslang/xjs/zzverif/sym"
)

// ---------------------------------------------------------------- reference models (R6, R7)

func zzWS(c byte) bool { return c == ' ' || c == '\t' || c == '\n' || c == '\r' }

func zzIdentStart(c byte) bool {
	return (c >= 'a' && c <= 'z') || (c >= 'A' && c <= 'Z') || c == '_' || c == '$'
}

func zzIdentPart(c byte) bool { return zzIdentStart(c) || (c >= '0' && c <= '9') }

// zzLineCol is R6: position of offset x given that offset p is at (line0,col0).
func zzLineCol(w string, p, x, line0, col0 int) (int, int) {
	line, col := line0, col0
	for i := p; i < x; i++ {
		if w[i] == '\n' {
			line++
			col = 0
		} else {
			col++
		}
	}
	return line, col
}

type zzTrivia struct {
	end      int      // offset of the first byte that is not trivia
	sawLF    bool     // a line feed occurs in the trivia
	sawCR    bool     // a carriage return occurs outside comments
	comments []string // `//` comment texts, trailing spaces trimmed
}

// zzScanTrivia is R7: whitespace and // comments starting at p.
func zzScanTrivia(w string, p int) zzTrivia {
	t := zzTrivia{}
	i := p
	for i < len(w) {
		c := w[i]
		if zzWS(c) {
			if c == '\n' {
				t.sawLF = true
			}
			if c == '\r' {
				t.sawCR = true
			}
			i++
			continue
		}
		if c == '/' && i+1 < len(w) && w[i+1] == '/' {
			j := i + 2
			for j < len(w) && w[j] != '\n' {
				j++
			}
			e := j
			for e > i+2 && w[e-1] == ' ' {
				e--
			}
			t.comments = append(t.comments, w[i+2:e])
			i = j
			continue
		}
		break
	}
	t.end = i
	return t
}

var zzKeywords = []struct {
	s string
	t token.Type
}{
	{"function", token.FUNCTION}, {"let", token.LET}, {"if", token.IF}, {"else", token.ELSE},
	{"while", token.WHILE}, {"for", token.FOR}, {"return", token.RETURN}, {"true", token.TRUE},
	{"false", token.FALSE}, {"null", token.NULL},
}

func zzIsKeywordType(t token.Type) bool {
	return sym.And(t >= token.FUNCTION, t <= token.NULL)
}

// zzPunct is the reference (R2) view of the subset's operators and
// punctuation at offset s: token type, length, and whether the text is inside
// the subset there (false: not a punctuator, or ECMAScript reads a longer
// punctuator that the subset does not have, e.g. === ** => ... &&= <<).
func zzPunct(w string, s int) (token.Type, int, bool) {
	c := w[s]
	var d, e byte
	if s+1 < len(w) {
		d = w[s+1]
	}
	if s+2 < len(w) {
		e = w[s+2]
	}
	two := func(t token.Type) (token.Type, int, bool) { return t, 2, true }
	one := func(t token.Type) (token.Type, int, bool) { return t, 1, true }
	out := func() (token.Type, int, bool) { return token.ILLEGAL, 0, false }
	switch c {
	case '=':
		if d == '=' {
			if e == '=' {
				return out() // ===
			}
			return two(token.EQ)
		}
		if d == '>' {
			return out() // =>
		}
		return one(token.ASSIGN)
	case '!':
		if d == '=' {
			if e == '=' {
				return out() // !==
			}
			return two(token.NOT_EQ)
		}
		return one(token.NOT)
	case '<':
		if d == '=' {
			return two(token.LTE)
		}
		if d == '<' {
			return out() // <<
		}
		return one(token.LT)
	case '>':
		if d == '=' {
			return two(token.GTE)
		}
		if d == '>' {
			return out() // >> >>>
		}
		return one(token.GT)
	case '&':
		if d == '&' {
			if e == '=' {
				return out() // &&=
			}
			return two(token.AND)
		}
		return out() // & &= are not in the subset
	case '|':
		if d == '|' {
			if e == '=' {
				return out() // ||=
			}
			return two(token.OR)
		}
		return out()
	case '+':
		if d == '+' {
			return two(token.INCREMENT)
		}
		if d == '=' {
			return two(token.PLUS_ASSIGN)
		}
		return one(token.PLUS)
	case '-':
		if d == '-' {
			return two(token.DECREMENT)
		}
		if d == '=' {
			return two(token.MINUS_ASSIGN)
		}
		return one(token.MINUS)
	case '*':
		if d == '*' || d == '=' {
			return out() // ** *=
		}
		return one(token.MULTIPLY)
	case '/':
		if d == '=' || d == '*' {
			return out() // /= and block comments
		}
		return one(token.DIVIDE)
	case '%':
		if d == '=' {
			return out()
		}
		return one(token.MODULO)
	case ',':
		return one(token.COMMA)
	case ';':
		return one(token.SEMICOLON)
	case ':':
		return one(token.COLON)
	case '.':
		if d == '.' && e == '.' {
			return out() // ...
		}
		if d >= '0' && d <= '9' {
			return out() // .5 is a number in ECMAScript
		}
		return one(token.DOT)
	case '(':
		return one(token.LPAREN)
	case ')':
		return one(token.RPAREN)
	case '{':
		return one(token.LBRACE)
	case '}':
		return one(token.RBRACE)
	case '[':
		return one(token.LBRACKET)
	case ']':
		return one(token.RBRACKET)
	}
	return out()
}

// ---------------------------------------------------------------- H10: one step of NextToken

// zzWindow builds the input: `prefix` bytes the step must never look at, then
// the window. closed: the input ends after n window bytes (n chosen in 0..K);
// open: K+1 arbitrary bytes, and a path is only accepted if it stops before
// the last one (every byte it read is then a byte of any longer input too).
func zzWindow() (w string, p int, open bool) {
	K := sym.Param("K", 5)
	P := sym.Param("prefix", 0)
	p = sym.Choose("prefixlen", P+1)
	n := sym.Choose("len", K+2)
	open = n == K+1
	return sym.String("pre", p) + sym.String("w", n), p, open
}

func ZZH10Step() {
	w, p, open := zzWindow()
	n := len(w)
	line0, col0 := sym.Int("line0"), sym.Int("col0")
	sym.Assume(sym.And(sym.And(line0 >= 0, line0 <= 1<<30), sym.And(col0 >= 0, col0 <= 1<<30)))
	l := &Lexer{input: w, position: p, readPosition: p + 1, Line: line0, Column: col0, nextToken: baseNextToken}
	if p < n {
		l.CurrentChar = w[p]
	}
	l.hadNewlineBefore = sym.Bool("stale.newline")
	if sym.Bool("stale.comments") {
		l.leadingComments = []string{"stale"}
	}

	tr := zzScanTrivia(w, p)
	s := tr.end

	tok := l.NextToken() // the code under test
	q := l.position

	if open {
		// accept only paths that never depended on where the input ends
		if q >= n-1 {
			sym.Cut("lexeme and trivia longer than the window")
		}
	}
	sym.Observe("step", w, p, int(tok.Type), tok.Literal, tok.Start.Line-line0, tok.Start.Column, tok.End.Line-line0, tok.End.Column, tok.AfterNewline, q)

	// tiling: the token starts at the first byte that is not trivia
	sl, sc := zzLineCol(w, p, s, line0, col0)
	sym.Assert(sym.And(tok.Start.Line == sl, tok.Start.Column == sc), "start-is-first-byte-of-lexeme")
	// progress, no byte consumed twice or skipped
	sym.Assert(q <= n, "cursor-inside-source")
	if s < n {
		sym.Assert(q > s, "token-consumes-at-least-one-byte")
	} else {
		sym.Assert(q == n, "cursor-stays-at-end-of-input")
	}
	// end of input
	sym.Assert((tok.Type == token.EOF) == (s == n), "eof-exactly-at-end-of-input")
	// end position: on or immediately after the last byte
	if q > s {
		e1l, e1c := zzLineCol(w, p, q-1, line0, col0)
		e2l, e2c := zzLineCol(w, p, q, line0, col0)
		sym.Assert(sym.Or(sym.And(tok.End.Line == e1l, tok.End.Column == e1c), sym.And(tok.End.Line == e2l, tok.End.Column == e2c)), "end-on-or-after-last-byte")
	} else {
		sym.Assert(sym.And(tok.End.Line == sl, tok.End.Column == sc), "eof-end-position")
	}
	// after-newline flag (lone CR: don't care)
	if tr.sawLF {
		sym.Assert(tok.AfterNewline, "after-newline-set")
	} else if !tr.sawCR {
		sym.Assert(!tok.AfterNewline, "after-newline-clear")
	}
	// comments: the non-empty trivia entries are the comment texts in order
	var got []string
	for _, c := range tok.LeadingComments {
		if len(c) > 0 {
			got = append(got, c)
		}
	}
	var want []string
	for _, c := range tr.comments {
		if len(c) > 0 {
			want = append(want, c)
		}
	}
	sym.Assert(len(got) == len(want), "comment-count")
	if len(got) == len(want) {
		for i := range got {
			sym.Assert(sym.EqStr(got[i], want[i]), "comment-text")
		}
	}
	// identifiers and keywords: maximal munch, exact slice, classification
	if s < n && zzIdentStart(w[s]) {
		e := s
		for e < n && zzIdentPart(w[e]) {
			e++
		}
		sym.Assert(q == e, "identifier-extent")
		if q == e {
			lit := w[s:e]
			sym.Assert(sym.EqStr(tok.Literal, lit), "identifier-literal-is-source-slice")
			want := int(token.IDENT)
			for _, kw := range zzKeywords {
				want = sym.Ite(sym.EqStr(lit, kw.s), int(kw.t), want)
			}
			sym.Assert(int(tok.Type) == want, "keyword-classification")
		}
	} else {
		sym.Assert(sym.And(tok.Type != token.IDENT, !zzIsKeywordType(tok.Type)), "identifier-needs-identifier-start")
	}
	// operators and punctuation of the subset: kind and extent by maximal munch
	// (skipped where ECMAScript has a longer punctuator that is outside the subset)
	if s < n && !zzIdentStart(w[s]) {
		wantT, wantLen, known := zzPunct(w, s)
		if known {
			sym.Assert(tok.Type == wantT, "operator-or-punctuator-kind")
			sym.Assert(q == s+wantLen, "operator-or-punctuator-extent")
		}
	}
	// numbers carry exactly the slice they span
	if tok.Type == token.INT || tok.Type == token.FLOAT {
		if q <= n && q >= s {
			sym.Assert(sym.EqStr(tok.Literal, w[s:q]), "number-literal-is-source-slice")
		}
		sym.Assert(w[s] >= '0' && w[s] <= '9', "number-starts-with-digit")
	}
	// the post-state satisfies the invariant again (induction step)
	sym.Assert(l.readPosition == l.position+1, "inv-readposition")
	if q < n {
		sym.Assert(l.CurrentChar == w[q], "inv-currentchar")
	} else {
		sym.Assert(l.CurrentChar == 0, "inv-currentchar-at-end")
	}
	if q <= n {
		ql, qc := zzLineCol(w, p, q, line0, col0)
		sym.Assert(sym.And(l.Line == ql, l.Column == qc), "inv-line-column")
	}
	sym.Cover("end")
}

// ZZH10Init: the constructor establishes the invariant (base case).
func ZZH10Init() {
	K := sym.Param("K", 5)
	n := sym.Choose("len", K+1)
	w := sym.String("w", n)
	l := NewBuilder().Build(w)
	sym.Assert(l.position == 0 && l.readPosition == 1, "init-cursor")
	sym.Assert(l.Line == 0 && l.Column == 0, "init-line-column")
	if n > 0 {
		sym.Assert(l.CurrentChar == w[0], "init-currentchar")
	} else {
		sym.Assert(l.CurrentChar == 0, "init-currentchar-empty")
	}
	sym.Cover("end")
}

// ZZH4dTokenInterceptors: pass-through token interceptors are called once per
// token with the lexer positioned on the lexeme's first byte, and leave the
// token stream unchanged (C04, lexer part). Whole small inputs, two tokens.
func ZZH4dTokenInterceptors() {
	K := sym.Param("K", 4)
	n := sym.Choose("len", K+1)
	w := sym.String("w", n)
	k := 1 + sym.Choose("interceptors", 2)
	type entry struct {
		id, line, col, pos int
		ch                 byte
	}
	var log []entry
	b := NewBuilder()
	for i := 0; i < k; i++ {
		id := i
		b.UseTokenInterceptor(func(l *Lexer, next func() token.Token) token.Token {
			log = append(log, entry{id, l.Line, l.Column, l.position, l.CurrentChar})
			return next()
		})
	}
	plain := NewBuilder().Build(w)
	l := b.Build(w)
	steps := sym.Param("steps", 2)
	for sidx := 0; sidx < steps; sidx++ {
		before := len(log)
		want := plain.NextToken()
		got := l.NextToken()
		sym.Observe("tok", int(got.Type), got.Literal, got.Start.Line, got.Start.Column)
		sym.Assert(got.Type == want.Type && sym.EqStr(got.Literal, want.Literal), "token-unchanged")
		sym.Assert(got.Start == want.Start && got.End == want.End && got.AfterNewline == want.AfterNewline, "token-position-unchanged")
		sym.Assert(len(log)-before == k, "each-interceptor-called-once-per-token")
		for _, e := range log[before:] {
			sym.Assert(sym.And(e.line == got.Start.Line, e.col == got.Start.Column), "lexer-positioned-on-first-byte-of-lexeme")
			if e.pos < len(w) {
				sym.Assert(e.ch == w[e.pos], "current-char-is-first-byte-of-lexeme")
			} else {
				sym.Assert(got.Type == token.EOF, "interceptor-at-end-only-for-eof")
			}
		}
	}
	sym.Cover("end")
}
