// Package sym is the harness API. Under the symbolic executor (xsym) the
// functions below are intercepted by name; compiled natively they read the
// values of a replay file (env ZZSYM_REPLAY, JSON {"model": {name: value}}),
// so the same harness source is the replay test.
package sym

import (
	"encoding/json"
	"fmt"
	"os"
	"reflect"
	"strconv"
	"strings"
)

type replayFile struct {
	Model map[string]uint64 `json:"model"`
}

var (
	model    map[string]uint64
	counts   = map[string]int{}
	loaded   bool
	Failures []string
	Covers   []string
	Obs      []string
	Quiet    bool
)

// Params holds the harness parameters of the current run (native only).
var Params = map[string]int{}

// Param returns a harness parameter (bounds such as window sizes).
func Param(name string, def int) int {
	if v, ok := Params[name]; ok {
		return v
	}
	return def
}

// Reset clears the per-run state (native only).
func Reset(m map[string]uint64) {
	model = m
	loaded = true
	counts = map[string]int{}
	Failures = nil
	Covers = nil
	Obs = nil
}

func load() {
	if loaded {
		return
	}
	loaded = true
	model = map[string]uint64{}
	if p := os.Getenv("ZZSYM_REPLAY"); p != "" {
		data, err := os.ReadFile(p)
		if err != nil {
			panic(err)
		}
		var rf replayFile
		if err := json.Unmarshal(data, &rf); err != nil {
			panic(err)
		}
		model = rf.Model
	}
}

func value(name string) uint64 {
	load()
	k := counts[name]
	counts[name] = k + 1
	if k > 0 {
		name = fmt.Sprintf("%s#%d", name, k)
	}
	return model[name]
}

// AssumeFailed is the panic value of a violated assumption (native only).
type AssumeFailed struct{}

// CutPath is the panic value of Cut (native only).
type CutPath struct{ Label string }

func Int(name string) int     { return int(int64(value(name))) }
func Int32(name string) int32 { return int32(uint32(value(name))) }
func Byte(name string) byte   { return byte(value(name)) }
func Bool(name string) bool   { return value(name)&1 != 0 }
func Bytes(name string, n int) []byte {
	out := make([]byte, n)
	for i := range out {
		out[i] = byte(value(fmt.Sprintf("%s[%d]", name, i)))
	}
	return out
}
func String(name string, n int) string { return string(Bytes(name, n)) }

// Choose returns a value in [0,n); the executor explores every one.
func Choose(name string, n int) int {
	v := int(value(name))
	if v < 0 || v >= n {
		panic(AssumeFailed{})
	}
	return v
}

func Assume(b bool) {
	if !b {
		panic(AssumeFailed{})
	}
}

func Assert(b bool, label string) {
	if !b {
		Failures = append(Failures, label)
		// like the executor, continue only on paths where the assertion holds
		panic(AssertFailed{label})
	}
}

// AssertFailed is the panic value of a failed assertion (native only).
type AssertFailed struct{ Label string }

func Cover(label string) { Covers = append(Covers, label) }
func Cut(label string)   { panic(CutPath{label}) }

func And(a, b bool) bool     { return a && b }
func Or(a, b bool) bool      { return a || b }
func Not(a bool) bool        { return !a }
func Implies(a, b bool) bool { return !a || b }
func Ite(c bool, a, b int) int {
	if c {
		return a
	}
	return b
}
func IteByte(c bool, a, b byte) byte {
	if c {
		return a
	}
	return b
}
func EqStr(a, b string) bool { return a == b }
func Concrete(x int) int     { return x }
func Symbolic() bool         { return false }
func IsConcrete(x int) bool  { return true }
func Fork(b bool) bool       { return b }

// Observe records values; the executor evaluates them under the model and the
// driver compares both renderings.
func Observe(label string, vals ...any) {
	parts := make([]string, len(vals))
	for i, v := range vals {
		parts[i] = render(reflect.ValueOf(v))
	}
	Obs = append(Obs, label+"="+strings.Join(parts, " "))
}

func render(v reflect.Value) string {
	if !v.IsValid() {
		return "nil"
	}
	switch v.Kind() {
	case reflect.Bool:
		return strconv.FormatBool(v.Bool())
	case reflect.Int, reflect.Int8, reflect.Int16, reflect.Int32, reflect.Int64:
		return strconv.FormatInt(v.Int(), 10)
	case reflect.Uint, reflect.Uint8, reflect.Uint16, reflect.Uint32, reflect.Uint64, reflect.Uintptr:
		return strconv.FormatUint(v.Uint(), 10)
	case reflect.String:
		return strconv.Quote(v.String())
	case reflect.Slice, reflect.Array:
		if v.Type().Elem().Kind() == reflect.Uint8 {
			b := make([]byte, v.Len())
			for i := range b {
				b[i] = byte(v.Index(i).Uint())
			}
			return strconv.Quote(string(b))
		}
		parts := make([]string, v.Len())
		for i := range parts {
			parts[i] = render(v.Index(i))
		}
		return "[" + strings.Join(parts, " ") + "]"
	case reflect.Struct:
		parts := make([]string, v.NumField())
		for i := range parts {
			parts[i] = render(v.Field(i))
		}
		return "{" + strings.Join(parts, " ") + "}"
	case reflect.Ptr:
		if v.IsNil() {
			return "nil"
		}
		return "&" + render(v.Elem())
	case reflect.Interface:
		if v.IsNil() {
			return "nil"
		}
		return render(v.Elem())
	}
	return "<" + v.Kind().String() + ">"
}

// Err is the error type produced by the executor's models of fmt.Errorf and
// errors.New.
type Err struct{ S string }

func (e *Err) Error() string { return e.S }

// Freeze tells the executor's confinement monitor that everything reachable
// from x is shared from now on: any later store into it is reported. Natively
// a no-op (harnesses also assert the observable consequences).
func Freeze(what string, x any) {}

// FreezeGlobals does the same for the package-level variables of xjs.
func FreezeGlobals() {}
