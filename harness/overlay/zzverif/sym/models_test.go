package sym

import (
	"bytes"
	"reflect"
	"strconv"
	"strings"
	"testing"
	"unicode/utf8"
)

// The numeric models against strconv on every digit-led text of length <= 5
// over the characters that matter.
func TestNumericModels(t *testing.T) {
	alpha := []byte("0179.eE+-xXbBoOaf")
	var gen func(prefix []byte, n int)
	gen = func(prefix []byte, n int) {
		if len(prefix) > 0 {
			s := string(prefix)
			_, err := strconv.ParseInt(s, 0, 64)
			if g := ModelParseIntOK(s); g != (err == nil) {
				t.Fatalf("ParseIntOK(%q) = %v, strconv err = %v", s, g, err)
			}
			// float model: only texts without hex prefix (the lexer never sends them)
			if !strings.ContainsAny(s, "xXbBoOaf") {
				_, ferr := strconv.ParseFloat(s, 64)
				if ne, ok := ferr.(*strconv.NumError); ok && ne.Err == strconv.ErrRange {
					ferr = nil // range errors are outside the model
				}
				if g := ModelParseFloatOK(s); g != (ferr == nil) {
					t.Fatalf("ParseFloatOK(%q) = %v, strconv err = %v", s, g, ferr)
				}
			}
		}
		if n == 0 {
			return
		}
		for _, c := range alpha {
			if len(prefix) == 0 && !(c >= '0' && c <= '9') {
				continue
			}
			gen(append(append([]byte{}, prefix...), c), n-1)
		}
	}
	gen(nil, 5)
}

// Differential test of the models against the real functions: every string
// of length <= 4 over an alphabet that contains all the bytes the models
// distinguish, plus longer fixed cases.
func TestModels(t *testing.T) {
	alpha := []byte{' ', '\n', '\t', '\r', 'a', 0xC2, 0x85, 0xA0, 0xE2, 0x80, 0xE1, 0x9A, 0xE3, 0x81, 0x9F, 0xA8, 0x8A, 0xF0, 0x00, 0x0B}
	var cases []string
	var gen func(prefix []byte, n int)
	gen = func(prefix []byte, n int) {
		cases = append(cases, string(prefix))
		if n == 0 {
			return
		}
		for _, c := range alpha {
			gen(append(append([]byte{}, prefix...), c), n-1)
		}
	}
	gen(nil, 4)
	cases = append(cases, "\xf0\x9f\x98\x80", "\xf0\x8f\x98\x80", "\xf4\x90\x80\x80", "\xed\xa0\x80", "\xe0\x9f\xbf", "\xe0\xa0\x80", "\xf4\x8f\xbf\xbf", "\xf5\x80\x80\x80", "\xc1\x80", "\xef\xbf\xbd", "  a b  \n", " x　", "x ", "   y   ", "a\xe2\x80", "\xc2", "\x80\x85", "\xe2\x80\xa0\x85")
	for _, s := range cases {
		if g, w := ModelTrimSpace(s), strings.TrimSpace(s); g != w {
			t.Fatalf("TrimSpace(%q) = %q, want %q", s, g, w)
		}
		if g, w := ModelTrimRight(s, " "), strings.TrimRight(s, " "); g != w {
			t.Fatalf("TrimRight(%q) = %q, want %q", s, g, w)
		}
		if g, w := ModelTrimLeft(s, " \t"), strings.TrimLeft(s, " \t"); g != w {
			t.Fatalf("TrimLeft(%q) = %q, want %q", s, g, w)
		}
		if g, w := ModelSplit(s, "\n"), strings.Split(s, "\n"); !reflect.DeepEqual(g, w) {
			t.Fatalf("Split(%q) = %q, want %q", s, g, w)
		}
		if g, w := ModelContains(s, "a\n"), strings.Contains(s, "a\n"); g != w {
			t.Fatalf("Contains(%q)", s)
		}
		if r, n := ExtDecodeRune(s); true {
			if wr, wn := utf8.DecodeRuneInString(s); r != wr || n != wn {
				t.Fatalf("DecodeRune(%q) = %x %d, want %x %d", s, r, n, wr, wn)
			}
		}
		for _, c := range []byte{'a', ' ', 0x80, 0} {
			if g, w := ExtIndexByteString(s, c), strings.IndexByte(s, c); g != w {
				t.Fatalf("IndexByte(%q, %q) = %d, want %d", s, c, g, w)
			}
			if g, w := ExtIndexByte([]byte(s), c), bytes.IndexByte([]byte(s), c); g != w {
				t.Fatalf("bytes.IndexByte(%q, %q) = %d, want %d", s, c, g, w)
			}
			if g, w := ExtCountString(s, c), strings.Count(s, string([]byte{c})); c < 0x80 && g != w {
				t.Fatalf("Count(%q, %q) = %d, want %d", s, c, g, w)
			}
			if g, w := ExtCount([]byte(s), c), bytes.Count([]byte(s), []byte{c}); g != w {
				t.Fatalf("bytes.Count(%q, %q) = %d, want %d", s, c, g, w)
			}
		}
		for _, sub := range []string{"a ", " ", "\xe2\x80", "a"} {
			if g, w := ExtIndexString(s, sub), strings.Index(s, sub); g != w {
				t.Fatalf("Index(%q, %q) = %d, want %d", s, sub, g, w)
			}
			if g, w := ExtIndex([]byte(s), []byte(sub)), bytes.Index([]byte(s), []byte(sub)); g != w {
				t.Fatalf("bytes.Index(%q, %q) = %d, want %d", s, sub, g, w)
			}
			if g, w := ExtCompare([]byte(s), []byte(sub)), bytes.Compare([]byte(s), []byte(sub)); g != w {
				t.Fatalf("Compare(%q, %q) = %d, want %d", s, sub, g, w)
			}
		}
	}
}
