package sym

import (
	"reflect"
	"strings"
	"testing"
)

// Differential test of the models against the real functions: every string
// of length <= 4 over an alphabet that contains all the bytes the models
// distinguish, plus longer fixed cases.
func TestModels(t *testing.T) {
	alpha := []byte{' ', '\n', '\t', '\r', 'a', 0xC2, 0x85, 0xA0, 0xE2, 0x80, 0xE1, 0x9A, 0xE3, 0x81, 0x9F, 0xA8, 0x8A, 0xF0, 0x00, 0x0B}
	var cases []string
	var gen func(prefix []byte, n int)
	gen = func(prefix []byte, n int) {
		cases = append(cases, string(prefix))
		if n == 0 {
			return
		}
		for _, c := range alpha {
			gen(append(append([]byte{}, prefix...), c), n-1)
		}
	}
	gen(nil, 4)
	cases = append(cases, "  a b  \n", " x　", "x ", "   y   ", "a\xe2\x80", "\xc2", "\x80\x85", "\xe2\x80\xa0\x85")
	for _, s := range cases {
		if g, w := ModelTrimSpace(s), strings.TrimSpace(s); g != w {
			t.Fatalf("TrimSpace(%q) = %q, want %q", s, g, w)
		}
		if g, w := ModelTrimRight(s, " "), strings.TrimRight(s, " "); g != w {
			t.Fatalf("TrimRight(%q) = %q, want %q", s, g, w)
		}
		if g, w := ModelTrimLeft(s, " \t"), strings.TrimLeft(s, " \t"); g != w {
			t.Fatalf("TrimLeft(%q) = %q, want %q", s, g, w)
		}
		if g, w := ModelSplit(s, "\n"), strings.Split(s, "\n"); !reflect.DeepEqual(g, w) {
			t.Fatalf("Split(%q) = %q, want %q", s, g, w)
		}
		if g, w := ModelContains(s, "a\n"), strings.Contains(s, "a\n"); g != w {
			t.Fatalf("Contains(%q)", s)
		}
	}
}
