package sym

// Byte-loop models of the standard library string functions that the code
// under test applies to text containing symbolic bytes. The executor runs
// them in place of the real functions (which end in assembly or Unicode
// tables); models_test.go checks them against the real functions natively.

// ModelTrimRight models strings.TrimRight for an ASCII cutset.
func ModelTrimRight(s, cutset string) string {
	e := len(s)
	for e > 0 && inSet(s[e-1], cutset) {
		e--
	}
	return s[:e]
}

// ModelTrimLeft models strings.TrimLeft for an ASCII cutset.
func ModelTrimLeft(s, cutset string) string {
	b := 0
	for b < len(s) && inSet(s[b], cutset) {
		b++
	}
	return s[b:]
}

func inSet(c byte, set string) bool {
	for i := 0; i < len(set); i++ {
		if set[i] == c {
			return true
		}
	}
	return false
}

func asciiSpace(c byte) bool {
	return c == ' ' || c == '\t' || c == '\n' || c == '\v' || c == '\f' || c == '\r'
}

// spaceRuneAt reports the byte length of a non-ASCII Unicode White_Space rune
// encoded at s[i:], or 0.
func spaceRuneAt(s string, i int) int {
	if i+1 < len(s) && s[i] == 0xC2 && (s[i+1] == 0x85 || s[i+1] == 0xA0) {
		return 2
	}
	if i+2 < len(s) {
		a, b, c := s[i], s[i+1], s[i+2]
		if a == 0xE1 && b == 0x9A && c == 0x80 {
			return 3
		}
		if a == 0xE2 && b == 0x80 && ((c >= 0x80 && c <= 0x8A) || c == 0xA8 || c == 0xA9 || c == 0xAF) {
			return 3
		}
		if a == 0xE2 && b == 0x81 && c == 0x9F {
			return 3
		}
		if a == 0xE3 && b == 0x80 && c == 0x80 {
			return 3
		}
	}
	return 0
}

func isCont(c byte) bool { return c&0xC0 == 0x80 }

// spaceRuneBefore reports the byte length of a non-ASCII space rune that is
// the last rune of s[:e] in the sense of utf8.DecodeLastRune, or 0.
func spaceRuneBefore(s string, e int) int {
	if e < 2 || !isCont(s[e-1]) {
		return 0
	}
	// DecodeLastRune walks back over continuation bytes (at most 3) to a
	// start byte and accepts the rune only if it spans exactly to e.
	if !isCont(s[e-2]) {
		if spaceRuneAt(s[:e], e-2) == 2 {
			return 2
		}
		return 0
	}
	if e >= 3 && !isCont(s[e-3]) {
		if spaceRuneAt(s[:e], e-3) == 3 {
			return 3
		}
	}
	return 0
}

// ModelTrimSpace models strings.TrimSpace.
func ModelTrimSpace(s string) string {
	b := 0
	for b < len(s) {
		if asciiSpace(s[b]) {
			b++
			continue
		}
		if s[b] >= 0x80 {
			if n := spaceRuneAt(s, b); n > 0 {
				b += n
				continue
			}
		}
		break
	}
	e := len(s)
	for e > b {
		if asciiSpace(s[e-1]) {
			e--
			continue
		}
		if s[e-1] >= 0x80 {
			if n := spaceRuneBefore(s, e); n > 0 && e-n >= b {
				e -= n
				continue
			}
		}
		break
	}
	return s[b:e]
}

// ModelSplit models strings.Split for a one-byte separator.
func ModelSplit(s, sep string) []string {
	if len(sep) != 1 {
		panic("ModelSplit: separator must be one byte")
	}
	var out []string
	start := 0
	for i := 0; i < len(s); i++ {
		if s[i] == sep[0] {
			out = append(out, s[start:i])
			start = i + 1
		}
	}
	return append(out, s[start:])
}

func ModelHasPrefix(s, p string) bool { return len(s) >= len(p) && EqStr(s[:len(p)], p) }
func ModelHasSuffix(s, p string) bool { return len(s) >= len(p) && EqStr(s[len(s)-len(p):], p) }
func ModelContains(s, sub string) bool {
	for i := 0; i+len(sub) <= len(s); i++ {
		if s[i:i+len(sub)] == sub {
			return true
		}
	}
	return false
}

func isDig(c byte) bool { return c >= '0' && c <= '9' }
func isHexDig(c byte) bool {
	return isDig(c) || (c >= 'a' && c <= 'f') || (c >= 'A' && c <= 'F')
}

// ModelParseIntOK models the error result of strconv.ParseInt(s, 0, 64) for
// the texts the lexer can produce as INT tokens (digit-led, no sign, no
// underscore) of at most 15 digits (no overflow).
func ModelParseIntOK(s string) bool {
	if len(s) == 0 || len(s) > 17 {
		return false
	}
	if s[0] == '0' && len(s) > 1 {
		c := s[1]
		if c == 'x' || c == 'X' || c == 'b' || c == 'B' || c == 'o' || c == 'O' {
			if len(s) == 2 {
				return false
			}
			for i := 2; i < len(s); i++ {
				d := s[i]
				ok := false
				if c == 'x' || c == 'X' {
					ok = isHexDig(d)
				} else if c == 'b' || c == 'B' {
					ok = d == '0' || d == '1'
				} else {
					ok = d >= '0' && d <= '7'
				}
				if !ok {
					return false
				}
			}
			return true
		}
		// leading zero: octal
		for i := 1; i < len(s); i++ {
			if s[i] < '0' || s[i] > '7' {
				return false
			}
		}
		return true
	}
	for i := 0; i < len(s); i++ {
		if !isDig(s[i]) {
			return false
		}
	}
	return true
}

// ModelParseFloatOK models the error result of strconv.ParseFloat(s, 64) for
// digit-led decimal texts: digits [. digits*] [e|E [+|-] digits]. Range errors
// (exponents of three or more digits) are outside the model; harnesses bound
// the exponent to two digits.
func ModelParseFloatOK(s string) bool {
	i := 0
	n := len(s)
	nd := 0
	for i < n && isDig(s[i]) {
		i++
		nd++
	}
	if i < n && s[i] == '.' {
		i++
		for i < n && isDig(s[i]) {
			i++
			nd++
		}
	}
	if nd == 0 {
		return false
	}
	if i < n && (s[i] == 'e' || s[i] == 'E') {
		i++
		if i < n && (s[i] == '+' || s[i] == '-') {
			i++
		}
		k := 0
		for i < n && isDig(s[i]) {
			i++
			k++
		}
		if k == 0 {
			return false
		}
	}
	return i == n
}

// ---- stand-ins for the assembly-backed leaves of internal/bytealg: the
// executor descends into the Go bodies of strings/bytes functions it has no
// dedicated model for and ends here (plain byte loops; a comparison with a
// symbolic byte forks the path).

func ExtIndexByteString(s string, c byte) int {
	for i := 0; i < len(s); i++ {
		if s[i] == c {
			return i
		}
	}
	return -1
}

func ExtIndexByte(b []byte, c byte) int {
	for i := 0; i < len(b); i++ {
		if b[i] == c {
			return i
		}
	}
	return -1
}

func ExtCountString(s string, c byte) int {
	n := 0
	for i := 0; i < len(s); i++ {
		if s[i] == c {
			n++
		}
	}
	return n
}

func ExtCount(b []byte, c byte) int {
	n := 0
	for i := 0; i < len(b); i++ {
		if b[i] == c {
			n++
		}
	}
	return n
}

func ExtIndexString(a, b string) int {
	for i := 0; i+len(b) <= len(a); i++ {
		if a[i:i+len(b)] == b {
			return i
		}
	}
	return -1
}

func ExtIndex(a, b []byte) int {
	for i := 0; i+len(b) <= len(a); i++ {
		if string(a[i:i+len(b)]) == string(b) {
			return i
		}
	}
	return -1
}

func ExtCompare(a, b []byte) int {
	n := len(a)
	if len(b) < n {
		n = len(b)
	}
	for i := 0; i < n; i++ {
		if a[i] != b[i] {
			if a[i] < b[i] {
				return -1
			}
			return 1
		}
	}
	if len(a) < len(b) {
		return -1
	}
	if len(a) > len(b) {
		return 1
	}
	return 0
}

// ExtDecodeRune models utf8.DecodeRuneInString with byte comparisons only
// (the library version indexes a table with the first byte); the executor
// uses it for `range` over a string with symbolic bytes.
func ExtDecodeRune(s string) (rune, int) {
	n := len(s)
	if n < 1 {
		return 0xFFFD, 0
	}
	b0 := s[0]
	if b0 < 0x80 {
		return rune(b0), 1
	}
	if b0 < 0xC2 || b0 > 0xF4 {
		return 0xFFFD, 1
	}
	if b0 < 0xE0 {
		if n < 2 {
			return 0xFFFD, 1
		}
		b1 := s[1]
		if b1 < 0x80 || b1 > 0xBF {
			return 0xFFFD, 1
		}
		return rune(b0&0x1F)<<6 | rune(b1&0x3F), 2
	}
	lo, hi := byte(0x80), byte(0xBF)
	if b0 < 0xF0 {
		if n < 3 {
			return 0xFFFD, 1
		}
		b1, b2 := s[1], s[2]
		if b0 == 0xE0 {
			lo = 0xA0
		}
		if b0 == 0xED {
			hi = 0x9F
		}
		if b1 < lo || b1 > hi || b2 < 0x80 || b2 > 0xBF {
			return 0xFFFD, 1
		}
		return rune(b0&0x0F)<<12 | rune(b1&0x3F)<<6 | rune(b2&0x3F), 3
	}
	if n < 4 {
		return 0xFFFD, 1
	}
	b1, b2, b3 := s[1], s[2], s[3]
	if b0 == 0xF0 {
		lo = 0x90
	}
	if b0 == 0xF4 {
		hi = 0x8F
	}
	if b1 < lo || b1 > hi || b2 < 0x80 || b2 > 0xBF || b3 < 0x80 || b3 > 0xBF {
		return 0xFFFD, 1
	}
	return rune(b0&0x07)<<18 | rune(b1&0x3F)<<12 | rune(b2&0x3F)<<6 | rune(b3&0x3F), 4
}
