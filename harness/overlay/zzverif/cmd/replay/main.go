// Command replay runs harnesses natively on concrete models produced by the
// symbolic executor.
//
//	replay -batch cases.json   (JSON list of {"id","harness","model"})
//
// It prints one JSON object per case. A case that exceeds -case-timeout is
// reported as "timeout" and the process exits (the driver restarts it for the
// remaining cases).
package main

import (
	"encoding/json"
	"flag"
	"fmt"
	"os"
	"time"

	"github.com/xjslang/xjs/zzverif/sym"
)

type Case struct {
	ID      string            `json:"id"`
	Harness string            `json:"harness"`
	Model   map[string]uint64 `json:"model"`
	Params  map[string]int    `json:"params"`
}

type Result struct {
	ID       string   `json:"id"`
	Outcome  string   `json:"outcome"` // done | assume-failed | assert-failed | panic | cut | timeout | unknown-harness
	Label    string   `json:"label,omitempty"`
	Msg      string   `json:"msg,omitempty"`
	Failures []string `json:"failures"`
	Covers   []string `json:"covers"`
	Obs      []string `json:"obs"`
}

func runCase(c Case) (res Result) {
	res.ID = c.ID
	fn, ok := registry[c.Harness]
	if !ok {
		res.Outcome = "unknown-harness"
		return
	}
	sym.Reset(c.Model)
	sym.Params = c.Params
	if sym.Params == nil {
		sym.Params = map[string]int{}
	}
	defer func() {
		res.Failures = sym.Failures
		res.Covers = sym.Covers
		res.Obs = sym.Obs
		if r := recover(); r != nil {
			switch r := r.(type) {
			case sym.AssumeFailed:
				res.Outcome = "assume-failed"
			case sym.AssertFailed:
				res.Outcome = "assert-failed"
				res.Label = r.Label
			case sym.CutPath:
				res.Outcome = "cut"
				res.Label = r.Label
			default:
				res.Outcome = "panic"
				res.Msg = fmt.Sprint(r)
			}
		}
	}()
	fn()
	res.Outcome = "done"
	return
}

func main() {
	batch := flag.String("batch", "", "cases file")
	start := flag.Int("start", 0, "first case index")
	caseTimeout := flag.Duration("case-timeout", 20*time.Second, "per case timeout")
	count := flag.Int("count", 0, "number of cases to run (0 = all remaining)")
	flag.Parse()
	data, err := os.ReadFile(*batch)
	if err != nil {
		fmt.Fprintln(os.Stderr, err)
		os.Exit(3)
	}
	var cases []Case
	if err := json.Unmarshal(data, &cases); err != nil {
		fmt.Fprintln(os.Stderr, err)
		os.Exit(3)
	}
	enc := json.NewEncoder(os.Stdout)
	end := len(cases)
	if *count > 0 && *start+*count < end {
		end = *start + *count
	}
	for i := *start; i < end; i++ {
		ch := make(chan Result, 1)
		go func(c Case) { ch <- runCase(c) }(cases[i])
		select {
		case r := <-ch:
			enc.Encode(r)
		case <-time.After(*caseTimeout):
			enc.Encode(Result{ID: cases[i].ID, Outcome: "timeout"})
			os.Exit(4)
		}
	}
}
