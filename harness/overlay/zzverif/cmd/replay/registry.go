package main

import (
	"github.com/xjslang/xjs/lexer"
	"github.com/xjslang/xjs/sourcemap"
)

var registry = map[string]func(){
	"github.com/xjslang/xjs/sourcemap.ZZH9aVLQ":      sourcemap.ZZH9aVLQ,
	"github.com/xjslang/xjs/sourcemap.ZZH9bMappings": sourcemap.ZZH9bMappings,
	"github.com/xjslang/xjs/sourcemap.ZZH9cHistory":  sourcemap.ZZH9cHistory,
	"github.com/xjslang/xjs/lexer.ZZH10Step":         lexer.ZZH10Step,
	"github.com/xjslang/xjs/lexer.ZZH10Init":         lexer.ZZH10Init,
}
