package h

import (
	"github.com/xjslang/xjs/ast"
)

// Node kinds of the shape digest.
const (
	KProgram = 100 + iota
	KLet
	KReturn
	KExprStmt
	KFuncDecl
	KBlock
	KIf
	KWhile
	KFor
	KIdent
	KInt
	KFloat
	KString
	KRaw
	KBool
	KNull
	KLetExpr
	KBinary
	KUnary
	KPostfix
	KGroup
	KCall
	KMember
	KIndex
	KAssign
	KCompound
	KFuncExpr
	KArray
	KObject
	KNil
	KEnd
	KUnknown
)

// Digest is a preorder serialisation of a tree: node kinds, operator token
// types (possibly symbolic) and child counts. Grouping nodes are skipped when
// SkipGroups is set.
type Digest struct {
	Out        []int
	NilEntry   bool // a statement list contains a nil or typed-nil entry
	Missing    bool // a mandatory child is nil
	SkipGroups bool
	Lits       bool // include identifier/literal text lengths
}

func (d *Digest) emit(v ...int) { d.Out = append(d.Out, v...) }

func (d *Digest) Program(p *ast.Program) {
	if p == nil {
		d.Missing = true
		return
	}
	d.emit(KProgram, len(p.Statements))
	for _, s := range p.Statements {
		d.listEntry(s)
	}
	d.emit(KEnd)
}

func (d *Digest) listEntry(s ast.Statement) {
	if isNilStmt(s) {
		d.NilEntry = true
		d.emit(KNil)
		return
	}
	d.Stmt(s)
}

func isNilStmt(s ast.Statement) bool {
	switch v := s.(type) {
	case nil:
		return true
	case *ast.LetStatement:
		return v == nil
	case *ast.ReturnStatement:
		return v == nil
	case *ast.ExpressionStatement:
		return v == nil
	case *ast.FunctionDeclaration:
		return v == nil
	case *ast.BlockStatement:
		return v == nil
	case *ast.IfStatement:
		return v == nil
	case *ast.WhileStatement:
		return v == nil
	case *ast.ForStatement:
		return v == nil
	}
	return false
}

func (d *Digest) ident(i *ast.Identifier) {
	if i == nil {
		d.Missing = true
		d.emit(KNil)
		return
	}
	d.emit(KIdent)
	if d.Lits {
		d.emit(len(i.Value))
	}
}

func (d *Digest) block(b *ast.BlockStatement) {
	if b == nil {
		d.Missing = true
		d.emit(KNil)
		return
	}
	d.emit(KBlock, len(b.Statements))
	for _, s := range b.Statements {
		d.listEntry(s)
	}
	d.emit(KEnd)
}

// Stmt digests a statement that must be present.
func (d *Digest) Stmt(s ast.Statement) {
	if isNilStmt(s) {
		d.Missing = true
		d.emit(KNil)
		return
	}
	switch v := s.(type) {
	case *ast.LetStatement:
		d.emit(KLet)
		d.ident(v.Name)
		d.optExpr(v.Value)
	case *ast.ReturnStatement:
		d.emit(KReturn)
		d.optExpr(v.ReturnValue)
	case *ast.ExpressionStatement:
		d.emit(KExprStmt)
		d.Expr(v.Expression)
	case *ast.FunctionDeclaration:
		d.emit(KFuncDecl)
		d.ident(v.Name)
		d.params(v.Parameters)
		d.block(v.Body)
	case *ast.BlockStatement:
		d.block(v)
	case *ast.IfStatement:
		d.emit(KIf)
		d.Expr(v.Condition)
		d.Stmt(v.ThenBranch)
		if v.ElseBranch != nil {
			d.emit(1)
			d.Stmt(v.ElseBranch)
		} else {
			d.emit(0)
		}
	case *ast.WhileStatement:
		d.emit(KWhile)
		d.Expr(v.Condition)
		d.Stmt(v.Body)
	case *ast.ForStatement:
		d.emit(KFor)
		d.optExpr(v.Init)
		d.optExpr(v.Condition)
		d.optExpr(v.Update)
		d.Stmt(v.Body)
	default:
		// expressions used as statements by plugins, or unknown nodes
		if e, ok := s.(ast.Expression); ok {
			d.Expr(e)
			return
		}
		d.emit(KUnknown)
	}
}

func (d *Digest) params(ps []*ast.Identifier) {
	d.emit(len(ps))
	for _, p := range ps {
		d.ident(p)
	}
}

func (d *Digest) optExpr(e ast.Expression) {
	if isNilExpr(e) {
		d.emit(KNil)
		return
	}
	d.Expr(e)
}

func isNilExpr(e ast.Expression) bool {
	switch v := e.(type) {
	case nil:
		return true
	case *ast.Identifier:
		return v == nil
	case *ast.IntegerLiteral:
		return v == nil
	case *ast.FloatLiteral:
		return v == nil
	case *ast.StringLiteral:
		return v == nil
	case *ast.MultiStringLiteral:
		return v == nil
	case *ast.BooleanLiteral:
		return v == nil
	case *ast.NullLiteral:
		return v == nil
	case *ast.LetExpression:
		return v == nil
	case *ast.BinaryExpression:
		return v == nil
	case *ast.UnaryExpression:
		return v == nil
	case *ast.PostfixExpression:
		return v == nil
	case *ast.GroupedExpression:
		return v == nil
	case *ast.CallExpression:
		return v == nil
	case *ast.MemberExpression:
		return v == nil
	case *ast.AssignmentExpression:
		return v == nil
	case *ast.CompoundAssignmentExpression:
		return v == nil
	case *ast.FunctionExpression:
		return v == nil
	case *ast.ArrayLiteral:
		return v == nil
	case *ast.ObjectLiteral:
		return v == nil
	}
	return false
}

func (d *Digest) exprList(es []ast.Expression) {
	d.emit(len(es))
	for _, e := range es {
		d.Expr(e)
	}
}

// Expr digests an expression that must be present.
func (d *Digest) Expr(e ast.Expression) {
	if isNilExpr(e) {
		d.Missing = true
		d.emit(KNil)
		return
	}
	switch v := e.(type) {
	case *ast.Identifier:
		d.ident(v)
	case *ast.IntegerLiteral:
		d.emit(KInt)
	case *ast.FloatLiteral:
		d.emit(KFloat)
	case *ast.StringLiteral:
		d.emit(KString)
		if d.Lits {
			d.emit(len(v.Value))
		}
	case *ast.MultiStringLiteral:
		d.emit(KRaw)
		if d.Lits {
			d.emit(len(v.Value))
		}
	case *ast.BooleanLiteral:
		d.emit(KBool, int(v.Token.Type))
	case *ast.NullLiteral:
		d.emit(KNull)
	case *ast.LetExpression:
		d.emit(KLetExpr)
		d.ident(v.Name)
		d.optExpr(v.Value)
	case *ast.BinaryExpression:
		d.emit(KBinary, int(v.Token.Type))
		d.Expr(v.Left)
		d.Expr(v.Right)
	case *ast.UnaryExpression:
		d.emit(KUnary, int(v.Token.Type))
		d.Expr(v.Right)
	case *ast.PostfixExpression:
		d.emit(KPostfix, int(v.Token.Type))
		d.Expr(v.Left)
	case *ast.GroupedExpression:
		if !d.SkipGroups {
			d.emit(KGroup)
		}
		d.Expr(v.Expression)
	case *ast.CallExpression:
		d.emit(KCall)
		d.Expr(v.Function)
		d.exprList(v.Arguments)
	case *ast.MemberExpression:
		if v.Computed {
			d.emit(KIndex)
		} else {
			d.emit(KMember)
		}
		d.Expr(v.Object)
		d.Expr(v.Property)
	case *ast.AssignmentExpression:
		d.emit(KAssign)
		d.Expr(v.Left)
		d.Expr(v.Value)
	case *ast.CompoundAssignmentExpression:
		d.emit(KCompound, int(v.Token.Type))
		d.Expr(v.Left)
		d.Expr(v.Value)
	case *ast.FunctionExpression:
		d.emit(KFuncExpr)
		if v.Name != nil {
			d.emit(1)
			d.ident(v.Name)
		} else {
			d.emit(0)
		}
		d.params(v.Parameters)
		d.block(v.Body)
	case *ast.ArrayLiteral:
		d.emit(KArray)
		d.exprList(v.Elements)
	case *ast.ObjectLiteral:
		d.emit(KObject, len(v.Properties))
		for _, pr := range v.Properties {
			d.Expr(pr.Key)
			d.Expr(pr.Value)
		}
	default:
		d.emit(KUnknown)
	}
}

// DigestOf digests a program.
func DigestOf(p *ast.Program, skipGroups bool) *Digest {
	d := &Digest{SkipGroups: skipGroups}
	d.Program(p)
	return d
}

// SameInts states element-wise equality as assertions-friendly bool (no forks
// beyond the concrete lengths).
func SameInts(a, b []int) bool {
	if len(a) != len(b) {
		return false
	}
	r := true
	for i := range a {
		r = symAnd(r, a[i] == b[i])
	}
	return r
}
