package h

import (
	"github.com/xjslang/xjs/ast"
	"github.com/xjslang/xjs/compiler"
	"github.com/xjslang/xjs/debug"
	"github.com/xjslang/xjs/lexer"
	"github.com/xjslang/xjs/parser"
	"github.com/xjslang/xjs/sourcemap"
	"github.com/xjslang/xjs/token"
	"github.com/xjslang/xjs/zzverif/sym"
)

type jobResult struct {
	dig   []int
	nerr  int
	code  string
	ok    bool
	errs  []parser.ParserError
	table []int
}

func sameResult(a, b jobResult) bool {
	return sym.And(sym.And(SameInts(a.dig, b.dig), a.ok == b.ok), sym.And(errorsEqual(a.errs, b.errs), sym.EqStr(a.code, b.code)))
}

// precedenceTable snapshots the package-level binding powers (observable
// consequence of a leak through the shared table).
func precedenceTable() []int {
	var out []int
	for t := 0; t < NumTokenTypes+2; t++ {
		v, ok := parser.ZZGlobalPrecedence(token.Type(t))
		if !ok {
			v = -1
		}
		out = append(out, v)
	}
	for _, t := range []token.Type{1000, 1001} {
		v, ok := parser.ZZGlobalPrecedence(t)
		if !ok {
			v = -1
		}
		out = append(out, v)
	}
	return out
}

func keywordTable() []int {
	var out []int
	for _, k := range []string{"function", "let", "if", "else", "while", "for", "return", "true", "false", "null", "a", "pow"} {
		out = append(out, int(token.LookupIdent(k)))
	}
	return out
}

// job A: default configuration.
func jobA(s *Script) jobResult {
	s.Rewind()
	p := parser.NewBuilder(s.LexerBuilder()).Build("")
	prog, err := p.ParseProgram()
	d := DigestOf(prog, false)
	r := jobResult{dig: d.Out, errs: p.Errors(), ok: err == nil}
	if err == nil && !d.Missing {
		r.code = compiler.New().Compile(prog).Code
	}
	return r
}

// job B: registered operators at symbolic level, interceptors, other modes.
func jobB(s *Script, level, cfg int) jobResult {
	s.Rewind()
	lb := lexer.NewBuilder()
	pow := lb.RegisterTokenType("pow")
	lb.UseTokenInterceptor(s.Interceptor())
	pb := parser.NewBuilder(lb).WithTolerantMode(true).WithSmartSemicolon(true)
	// which extensions the plugin configuration uses (each alone and together)
	switch cfg {
	case 0:
		pb.RegisterInfixOperator(pow, level, mkBinary)
		pb.RegisterPrefixOperator(token.Type(1001), mkPrefix)
	case 1:
		pb.RegisterPostfixOperator(token.NOT, mkPostfix)
	case 2:
		pb.RegisterPrefixOperator(token.MULTIPLY, mkPrefix)
	case 3:
		pb.RegisterInfixOperator(token.COLON, level, mkBinary)
		pb.RegisterPostfixOperator(pow, mkPostfix)
	}
	pb.UseExpressionInterceptor(func(p *parser.Parser, next func() ast.Expression) ast.Expression { return next() })
	pb.UseStatementInterceptor(func(p *parser.Parser, next func() ast.Statement) ast.Statement { return next() })
	p := pb.Build("")
	prog, err := p.ParseProgram()
	d := DigestOf(prog, false)
	r := jobResult{dig: d.Out, errs: p.Errors(), ok: err == nil}
	if err == nil && !d.Missing {
		r.code = compiler.New().WithPrettyPrint().Compile(prog).Code
	}
	return r
}

// ZZH14aJobs: a job gives the same result alone, before and after a job with
// a different configuration; package-level tables are never written (C14).
func ZZH14aJobs() {
	T := sym.Param("T", 2)
	sa := ContextScript(sym.Choose("na", T+1))
	sbToks := sym.Choose("nb", T+1)
	sb := &Script{EOF: symTok(token.EOF, "")}
	for i := 0; i < sbToks; i++ {
		t := sym.Int("btype")
		// job B's buffer may also contain its own operator tokens
		sym.Assume(sym.Or(sym.And(sym.And(t >= 0, t < NumTokenTypes), t != int(token.EOF)), sym.Or(t == 1000, t == 1001)))
		sb.Toks = append(sb.Toks, symTok(token.Type(t), "1"))
	}
	level := sym.Int("level")
	sym.Assume(sym.And(level >= 2, level <= 13))
	sym.Observe("scripts", sa.Types(), sb.Types(), level)
	sym.FreezeGlobals()
	tab0, kw0 := precedenceTable(), keywordTable()
	cfg := sym.Choose("bconfig", 4)
	if sym.Choose("order", 2) == 0 {
		a1 := jobA(sa)
		jobB(sb, level, cfg)
		a2 := jobA(sa)
		sym.Assert(sameResult(a1, a2), "job-unaffected-by-a-differently-configured-job")
	} else {
		b1 := jobB(sb, level, cfg)
		jobA(sa)
		b2 := jobB(sb, level, cfg)
		sym.Assert(sameResult(b1, b2), "job-unaffected-by-a-differently-configured-job")
	}
	sym.Assert(SameInts(tab0, precedenceTable()), "package-level-binding-powers-unchanged")
	sym.Assert(SameInts(kw0, keywordTable()), "keyword-table-unchanged")
	sym.Cover("end")
}

// ZZH14bBuilderReuse: one builder builds many independent parsers.
func ZZH14bBuilderReuse() {
	T := sym.Param("T", 2)
	s1 := ContextScript(sym.Choose("n1", sym.Param("T1", 0)+1))
	s2 := SymbolicScript(sym.Choose("n2", T+2))
	sym.Observe("scripts", s1.Types(), s2.Types())
	// shared builder with plugins; the scripts are switched through one interceptor
	cur := s1
	lb := lexer.NewBuilder()
	pow := lb.RegisterTokenType("pow")
	lb.UseTokenInterceptor(func(l *lexer.Lexer, next func() token.Token) token.Token {
		return cur.Interceptor()(l, next)
	})
	pb := parser.NewBuilder(lb).WithTolerantMode(sym.Bool("tolerant"))
	pb.RegisterInfixOperator(pow, 7, mkBinary)
	var order []int
	for id := 0; id < 2; id++ {
		k := id
		pb.UseExpressionInterceptor(func(p *parser.Parser, next func() ast.Expression) ast.Expression {
			order = append(order, k)
			return next()
		})
		pb.UseStatementInterceptor(func(p *parser.Parser, next func() ast.Statement) ast.Statement {
			order = append(order, 10+k)
			return next()
		})
	}
	run := func(s *Script) jobResult {
		cur = s
		s.Rewind()
		order = nil
		p := pb.Build("")
		prog, err := p.ParseProgram()
		d := DigestOf(prog, false)
		// the interceptor order of this build is part of the result
		return jobResult{dig: append(d.Out, order...), errs: p.Errors(), ok: err == nil}
	}
	sym.Freeze("builder", pb)
	r1 := run(s1)
	r1c := run(s1) // consecutive builds for the same input
	sym.Assert(sameResult(r1, r1c), "second-parser-from-one-builder-equals-the-first")
	r2 := run(s2)
	r1b := run(s1)
	r2b := run(s2)
	sym.Assert(sameResult(r1, r1b), "second-parser-from-one-builder-equals-the-first")
	sym.Assert(sameResult(r2, r2b), "second-parser-from-one-builder-equals-the-first")
	// two parsers alive at the same time
	cur = s1
	s1.Rewind()
	pA := pb.Build("")
	progA, _ := pA.ParseProgram()
	cur = s2
	s2.Rewind()
	pB := pb.Build("")
	progB, _ := pB.ParseProgram()
	sym.Assert(SameInts(DigestOf(progA, false).Out, r1.dig[:len(DigestOf(progA, false).Out)]), "parsers-from-one-builder-are-independent")
	sym.Assert(SameInts(DigestOf(progB, false).Out, r2.dig[:len(DigestOf(progB, false).Out)]), "parsers-from-one-builder-are-independent")
	sym.Assert(errorsEqual(pA.Errors(), r1.errs) && errorsEqual(pB.Errors(), r2.errs), "parsers-from-one-builder-are-independent")
	sym.Cover("end")
}

// ZZH14cCompile: compiling never modifies the tree; repeated compilation in
// any order of configurations gives identical results; a source map never
// changes the code; the debug string equals the compact compilation.
func ZZH14cCompile() {
	g, _, prog := GenText(sym.Param("trivia", 1), 1, false)
	_ = g
	d0 := DigestOf(prog, false)
	sym.FreezeGlobals()
	sym.Freeze("tree", prog)
	compact1 := compiler.New().Compile(prog).Code
	semi := sym.Bool("semi")
	pretty1 := newCompiler(true, semi, 2).Compile(prog).Code
	withMap := compiler.New().WithSourceMap().Compile(prog)
	prettyMap := newCompiler(true, semi, 2).WithSourceMap().Compile(prog)
	compact2 := compiler.New().Compile(prog).Code
	pretty2 := newCompiler(true, semi, 2).Compile(prog).Code
	sym.Observe("code", compact1, pretty1)
	sym.Assert(sym.EqStr(compact1, compact2), "compact-compilation-repeatable")
	sym.Assert(sym.EqStr(pretty1, pretty2), "pretty-compilation-repeatable")
	sym.Assert(sym.EqStr(withMap.Code, compact1), "source-map-does-not-change-compact-code")
	sym.Assert(sym.EqStr(prettyMap.Code, pretty1), "source-map-does-not-change-pretty-code")
	sym.Assert(sym.EqStr(debug.ToString(prog), compact1), "debug-string-equals-compact-compilation")
	sym.Assert(SameInts(DigestOf(prog, false).Out, d0.Out), "compiling-does-not-modify-the-tree")
	// a compiler object reused for two compilations
	c := newCompiler(true, semi, 2).WithSourceMap()
	r1 := c.Compile(prog)
	r2 := c.Compile(prog)
	raw := sym.Symbolic() && sym.Param("vlqstub", 0) == 1 // the modular encodeVLQ stand-in is in force
	if !raw {
		sym.Assert(sym.EqStr(r1.SourceMap.Mappings, r2.SourceMap.Mappings), "compiler-object-reusable")
	}
	m1, ok1 := sourcemap.ZZDecode(r1.SourceMap.Mappings, raw)
	m2, ok2 := sourcemap.ZZDecode(r2.SourceMap.Mappings, raw)
	same := ok1 && ok2 && len(m1) == len(m2)
	if same {
		for i := range m1 {
			same = sym.And(same, sym.And(sym.And(m1[i].GenLine == m2[i].GenLine, m1[i].GenCol == m2[i].GenCol),
				sym.And(sym.And(m1[i].SrcLine == m2[i].SrcLine, m1[i].SrcCol == m2[i].SrcCol), sym.And(m1[i].HasName == m2[i].HasName, m1[i].Name == m2[i].Name))))
		}
	}
	sym.Assert(sym.EqStr(r1.Code, r2.Code) && same, "compiler-object-reusable")
	// ... and the names table the indices point into is the same as well
	sameNames := len(r1.SourceMap.Names) == len(r2.SourceMap.Names) && len(r1.SourceMap.Names) == len(withNames(prettyMap.SourceMap))
	if sameNames {
		for i := range r1.SourceMap.Names {
			sameNames = sameNames && sym.EqStr(r1.SourceMap.Names[i], r2.SourceMap.Names[i]) && sym.EqStr(r1.SourceMap.Names[i], prettyMap.SourceMap.Names[i])
		}
	}
	sym.Assert(sameNames, "compiler-object-reusable-names")
	// results of different compilations share no object: filling in the file name of one map (as callers do)
	// does not show in another - also for a program without code, whose map has no segments
	empty := &ast.Program{Statements: []ast.Statement{}}
	e1 := compiler.New().WithSourceMap().Compile(empty)
	e2 := compiler.New().WithSourceMap().Compile(empty)
	if e1.SourceMap != nil && e2.SourceMap != nil && withMap.SourceMap != nil {
		e1.SourceMap.File = "one.js"
		withMap.SourceMap.File = "two.js"
		sym.Assert(!sym.EqStr(e2.SourceMap.File, "one.js") && !sym.EqStr(prettyMap.SourceMap.File, "two.js") && !sym.EqStr(r1.SourceMap.File, "two.js"), "results-of-different-compilations-share-no-object")
	}
	// a compiler object configured twice behaves like one configured only the second way
	rc := compiler.New().WithPrettyPrint(compiler.WithTabs(), compiler.WithSemi(false))
	rc.WithPrettyPrint(compiler.WithSemi(semi))
	sym.Assert(sym.EqStr(rc.Compile(prog).Code, pretty1), "reconfigured-compiler-equals-fresh-compiler")
	rc.WithPrettyPrint(compiler.WithSpaces(4))
	sym.Assert(sym.EqStr(rc.Compile(prog).Code, newCompiler(true, true, 4).Compile(prog).Code), "reconfigured-compiler-equals-fresh-compiler")
	if !sym.Symbolic() {
		// native replay only: the same compilations on 16 goroutines (the executor
		// decides the confinement premise; this shows the consequence of a leak)
		sym.Assert(concurrentCompilesAgree(prog, semi, pretty1, prettyMap.SourceMap.Mappings), "concurrent-compilations-equal-sequential")
	}
	sym.Cover("end")
}

func withNames(m *sourcemap.SourceMap) []string {
	if m == nil {
		return nil
	}
	return m.Names
}

func concurrentCompilesAgree(prog *ast.Program, semi bool, wantCode, wantMap string) bool {
	const workers, rounds = 16, 1500
	bad := make([]bool, workers)
	done := make(chan int, workers)
	for w := 0; w < workers; w++ {
		go func(w int) {
			for i := 0; i < rounds; i++ {
				r := newCompiler(true, semi, 2).WithSourceMap().Compile(prog)
				if r.Code != wantCode || r.SourceMap.Mappings != wantMap {
					bad[w] = true
				}
			}
			done <- w
		}(w)
	}
	for w := 0; w < workers; w++ {
		<-done
	}
	for _, b := range bad {
		if b {
			return false
		}
	}
	return true
}

// ZZH14dReconfigure: a builder's options are copied into each parser at Build
// time: a parser built under modes (t1, m1) behaves like one from a fresh
// builder with those modes even when the shared builder is reconfigured to
// (t2, m2) - and a second parser built - before the first one is used
// (C13 "builder options copied into each parser", C14 "one builder can build
// many independent parsers").
func ZZH14dReconfigure() {
	T := sym.Param("T", 2)
	s := ContextScript(sym.Choose("ntokens", T+1))
	t1, m1 := sym.Bool("tolerant"), sym.Bool("smart")
	t2, m2 := sym.Bool("tolerant2"), sym.Bool("smart2")
	sym.Observe("script", s.Types(), s.Newlines(), t1, m1, t2, m2)
	result := func(p *parser.Parser) jobResult {
		prog, err := p.ParseProgram()
		return jobResult{dig: DigestOf(prog, false).Out, errs: p.Errors(), ok: err == nil}
	}
	ref1 := result(NewParser(s, t1, m1))
	ref2 := result(NewParser(s, t2, m2))
	sA := &Script{Toks: s.Toks, EOF: s.EOF}
	sB := &Script{Toks: s.Toks, EOF: s.EOF}
	cur := sA
	lb := lexer.NewBuilder().UseTokenInterceptor(func(l *lexer.Lexer, next func() token.Token) token.Token {
		return cur.Interceptor()(l, next)
	})
	pb := parser.NewBuilder(lb).WithTolerantMode(t1).WithSmartSemicolon(m1)
	pA := pb.Build("")
	pb.WithTolerantMode(t2).WithSmartSemicolon(m2)
	cur = sB
	pB := pb.Build("")
	cur = sA
	rA := result(pA)
	cur = sB
	rB := result(pB)
	sym.Assert(sameResult(ref1, rA), "parser-keeps-the-modes-it-was-built-with")
	sym.Assert(sameResult(ref2, rB), "parser-built-after-reconfiguration-has-the-new-modes")
	sym.Cover("end")
}
