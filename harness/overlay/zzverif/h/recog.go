package h

// R3: a permissive ECMAScript recogniser over the subset's tokens. It is used
// only to decide that a corrupted program is *not* valid JavaScript, so it
// errs on the side of accepting: everything a JavaScript parser accepts that
// can be written with the subset's tokens (comma operator, trailing commas,
// elisions, several declarators, labels, empty statements, shorthand and
// method properties, computed keys, unary plus, function declarations as
// bodies, top-level return, ...) is accepted; what it rejects, every
// ECMAScript parser rejects. Identifiers are plain identifiers (the generator
// never produces contextual keywords such as `typeof`, `in`, `get`).

import (
	"github.com/xjslang/xjs/token"
)

type recog struct {
	toks []token.Token
	i    int
	bad  bool
}

// RAccepts reports whether the token sequence may be a valid program.
func RAccepts(toks []token.Token) bool {
	r := &recog{toks: toks}
	for !r.bad && !r.eof() {
		r.stmt()
	}
	return !r.bad
}

func (r *recog) eof() bool { return r.i >= len(r.toks) }

func (r *recog) peek() token.Type {
	if r.eof() {
		return token.EOF
	}
	return r.toks[r.i].Type
}

func (r *recog) peekAt(k int) token.Type {
	if r.i+k >= len(r.toks) {
		return token.EOF
	}
	return r.toks[r.i+k].Type
}

func (r *recog) nlBefore() bool {
	if r.eof() {
		return true
	}
	return r.toks[r.i].AfterNewline
}

func (r *recog) next() { r.i++ }

func (r *recog) fail() { r.bad = true }

func (r *recog) expect(t token.Type) {
	if r.bad {
		return
	}
	if r.peek() != t {
		r.fail()
		return
	}
	r.next()
}

// sep: explicit semicolon or automatic semicolon insertion.
func (r *recog) sep() {
	if r.bad {
		return
	}
	switch {
	case r.peek() == token.SEMICOLON:
		r.next()
	case r.eof() || r.peek() == token.RBRACE:
	case r.nlBefore():
	default:
		r.fail()
	}
}

func (r *recog) stmt() {
	if r.bad {
		return
	}
	switch r.peek() {
	case token.SEMICOLON:
		r.next() // empty statement
	case token.LET:
		r.next()
		r.declarators()
		r.sep()
	case token.FUNCTION:
		r.function(true)
	case token.RETURN:
		r.next()
		if r.peek() != token.SEMICOLON && r.peek() != token.RBRACE && !r.eof() && !r.nlBefore() {
			r.expr()
		}
		r.sep()
	case token.IF:
		r.next()
		r.expect(token.LPAREN)
		r.expr()
		r.expect(token.RPAREN)
		r.stmt()
		if r.peek() == token.ELSE {
			r.next()
			r.stmt()
		}
	case token.WHILE:
		r.next()
		r.expect(token.LPAREN)
		r.expr()
		r.expect(token.RPAREN)
		r.stmt()
	case token.FOR:
		r.next()
		r.expect(token.LPAREN)
		if r.peek() == token.LET {
			r.next()
			r.declarators()
		} else if r.peek() != token.SEMICOLON {
			r.expr()
		}
		r.expect(token.SEMICOLON)
		if r.peek() != token.SEMICOLON {
			r.expr()
		}
		r.expect(token.SEMICOLON)
		if r.peek() != token.RPAREN {
			r.expr()
		}
		r.expect(token.RPAREN)
		r.stmt()
	case token.LBRACE:
		r.block()
	case token.EOF, token.RBRACE, token.ELSE:
		r.fail()
	default:
		// labelled statement: identifier ':' statement
		if r.peek() == token.IDENT && r.peekAt(1) == token.COLON {
			r.next()
			r.next()
			r.stmt()
			return
		}
		r.expr()
		r.sep()
	}
}

func (r *recog) declarators() {
	for !r.bad {
		if r.peek() == token.LBRACKET || r.peek() == token.LBRACE {
			r.primary() // destructuring pattern
		} else {
			r.expect(token.IDENT)
		}
		if r.peek() == token.ASSIGN {
			r.next()
			r.assign()
		}
		if r.peek() != token.COMMA {
			return
		}
		r.next()
	}
}

func (r *recog) block() {
	r.expect(token.LBRACE)
	for !r.bad && r.peek() != token.RBRACE {
		if r.eof() {
			r.fail()
			return
		}
		r.stmt()
	}
	r.expect(token.RBRACE)
}

// function: declaration (name required) or expression (name optional).
func (r *recog) function(decl bool) {
	r.expect(token.FUNCTION)
	if r.peek() == token.IDENT {
		r.next()
	} else if decl {
		r.fail()
		return
	}
	r.expect(token.LPAREN)
	for !r.bad && r.peek() != token.RPAREN {
		r.expect(token.IDENT)
		if r.peek() == token.ASSIGN { // default value
			r.next()
			r.assign()
		}
		if r.peek() == token.COMMA {
			r.next()
		} else {
			break
		}
	}
	r.expect(token.RPAREN)
	r.block()
}

// expr: comma expression.
func (r *recog) expr() {
	r.assign()
	for !r.bad && r.peek() == token.COMMA {
		r.next()
		r.assign()
	}
}

func isAssignOp(t token.Type) bool {
	return t == token.ASSIGN || t == token.PLUS_ASSIGN || t == token.MINUS_ASSIGN
}

func binPrec(t token.Type) int {
	switch t {
	case token.OR:
		return lvOr
	case token.AND:
		return lvAnd
	case token.EQ, token.NOT_EQ:
		return lvEq
	case token.LT, token.GT, token.LTE, token.GTE:
		return lvCmp
	case token.PLUS, token.MINUS:
		return lvSum
	case token.MULTIPLY, token.DIVIDE, token.MODULO:
		return lvProd
	}
	return 0
}

// assign returns nothing; target validity is tracked by lastTarget.
func (r *recog) assign() {
	if r.bad {
		return
	}
	target := r.binary(lvOr)
	if isAssignOp(r.peek()) {
		if !target {
			r.fail()
			return
		}
		r.next()
		r.assign()
	}
}

// binary reports whether what it parsed is (only) an assignment target.
func (r *recog) binary(min int) bool {
	target := r.unary()
	for !r.bad {
		p := binPrec(r.peek())
		if p == 0 || p < min {
			break
		}
		r.next()
		r.binary(p + 1)
		target = false
	}
	return target
}

func (r *recog) unary() bool {
	if r.bad {
		return false
	}
	switch r.peek() {
	case token.NOT, token.MINUS, token.PLUS:
		r.next()
		r.unary()
		return false
	case token.INCREMENT, token.DECREMENT:
		r.next()
		if !r.unary() {
			r.fail()
		}
		return false
	}
	target := r.call()
	if (r.peek() == token.INCREMENT || r.peek() == token.DECREMENT) && !r.nlBefore() {
		if !target {
			r.fail()
		}
		r.next()
		return false
	}
	return target
}

// call: primary followed by call / member / index / template suffixes.
func (r *recog) call() bool {
	target := r.primary()
	for !r.bad {
		switch r.peek() {
		case token.LPAREN:
			r.next()
			r.args(token.RPAREN)
			target = false
		case token.DOT:
			r.next()
			r.expect(token.IDENT)
			target = true
		case token.LBRACKET:
			r.next()
			r.expr()
			r.expect(token.RBRACKET)
			target = true
		case token.RAW_STRING: // tagged template
			r.next()
			target = false
		default:
			return target
		}
	}
	return target
}

// args: comma separated assignment expressions, trailing comma allowed.
func (r *recog) args(end token.Type) {
	for !r.bad && r.peek() != end {
		r.assign()
		if r.peek() == token.COMMA {
			r.next()
		} else {
			break
		}
	}
	r.expect(end)
}

func (r *recog) primary() bool {
	if r.bad {
		return false
	}
	switch r.peek() {
	case token.IDENT:
		r.next()
		return true
	case token.INT, token.FLOAT, token.STRING, token.RAW_STRING, token.TRUE, token.FALSE, token.NULL:
		r.next()
		return false
	case token.LPAREN:
		r.next()
		r.expr()
		r.expect(token.RPAREN)
		return true // a parenthesised target is a target; anything else in
		// parentheses used as a target is an early error that a permissive
		// recogniser may accept
	case token.LBRACKET:
		r.next()
		for !r.bad && r.peek() != token.RBRACKET {
			if r.peek() == token.COMMA { // elision
				r.next()
				continue
			}
			r.assign()
			if r.peek() == token.COMMA {
				r.next()
			} else {
				break
			}
		}
		r.expect(token.RBRACKET)
		return true // array patterns may be assignment targets
	case token.LBRACE:
		r.next()
		for !r.bad && r.peek() != token.RBRACE {
			r.property()
			if r.peek() == token.COMMA {
				r.next()
			} else {
				break
			}
		}
		r.expect(token.RBRACE)
		return true // object patterns may be assignment targets
	case token.FUNCTION:
		r.function(false)
		return false
	case token.DIVIDE:
		// a `/` where an operand is expected starts a regular expression
		// literal in ECMAScript: accept anything up to the next `/` and flags
		r.next()
		for !r.eof() && r.peek() != token.DIVIDE {
			if r.toks[r.i].AfterNewline {
				r.fail()
				return false
			}
			r.next()
		}
		r.expect(token.DIVIDE)
		if r.peek() == token.IDENT && !r.nlBefore() {
			r.next()
		}
		return false
	}
	r.fail()
	return false
}

func (r *recog) property() {
	switch r.peek() {
	case token.IDENT, token.STRING, token.INT, token.FLOAT,
		token.TRUE, token.FALSE, token.NULL, token.LET, token.IF, token.ELSE, token.WHILE, token.FOR, token.RETURN, token.FUNCTION:
		r.next()
	case token.LBRACKET: // computed key
		r.next()
		r.assign()
		r.expect(token.RBRACKET)
	default:
		r.fail()
		return
	}
	switch r.peek() {
	case token.COLON:
		r.next()
		r.assign()
	case token.LPAREN: // method
		r.next()
		r.args(token.RPAREN)
		r.block()
	case token.ASSIGN: // shorthand with default (only valid in patterns)
		r.next()
		r.assign()
	}
	// plain shorthand {a}
}
