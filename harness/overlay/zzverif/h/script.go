// Package h holds the parser- and writer-level harnesses. They drive the
// public API of xjs; the lexer is replaced by a scripted token source
// installed through lexer.Builder.UseTokenInterceptor (the documented
// extension point), so the parser sees an arbitrary token buffer.
package h

import (
	"github.com/xjslang/xjs/lexer"
	"github.com/xjslang/xjs/parser"
	"github.com/xjslang/xjs/token"
	"github.com/xjslang/xjs/zzverif/sym"
)

// Script is a token buffer; after its last token it yields EOF forever.
type Script struct {
	Toks []token.Token
	EOF  token.Token
	i    int
	Log  []int // index of every token handed out (len(Toks) = EOF)
}

func (s *Script) Interceptor() lexer.Interceptor {
	return func(l *lexer.Lexer, next func() token.Token) token.Token {
		if s.i < len(s.Toks) {
			t := s.Toks[s.i]
			s.i++
			return t
		}
		return s.EOF
	}
}

func (s *Script) Rewind() { s.i = 0 }

// LexerBuilder returns a lexer builder reading from the script.
func (s *Script) LexerBuilder() *lexer.Builder {
	return lexer.NewBuilder().UseTokenInterceptor(s.Interceptor())
}

const NumTokenTypes = int(token.NULL) + 1

// SymbolicScript builds n tokens of arbitrary built-in type (EOF excluded),
// arbitrary positions and after-newline flags. Literals are "1" (valid for
// numbers; text is irrelevant to the parser for every other type).
func SymbolicScript(n int) *Script {
	s := &Script{}
	for i := 0; i < n; i++ {
		t := sym.Int("type")
		sym.Assume(sym.And(sym.And(t >= 0, t < NumTokenTypes), t != int(token.EOF)))
		s.Toks = append(s.Toks, symTok(token.Type(t), "1"))
	}
	s.EOF = symTok(token.EOF, "")
	return s
}

func symPos(name string) int {
	v := sym.Int(name)
	sym.Assume(sym.And(v >= 0, v <= 1<<20))
	return v
}

func symTok(t token.Type, lit string) token.Token {
	return token.Token{
		Type:         t,
		Literal:      lit,
		Start:        token.Position{Line: symPos("start.line"), Column: symPos("start.col")},
		End:          token.Position{Line: symPos("end.line"), Column: symPos("end.col")},
		AfterNewline: sym.Bool("afternewline"),
	}
}

// Types returns the token types of the script (for Observe).
func (s *Script) Types() []int {
	out := make([]int, len(s.Toks))
	for i, t := range s.Toks {
		out[i] = int(t.Type)
	}
	return out
}

func (s *Script) Newlines() []bool {
	out := make([]bool, len(s.Toks))
	for i, t := range s.Toks {
		out[i] = t.AfterNewline
	}
	return out
}

// NewParser builds a parser over the script with the given modes.
func NewParser(s *Script, tolerant, smart bool) *parser.Parser {
	s.Rewind()
	return parser.NewBuilder(s.LexerBuilder()).WithTolerantMode(tolerant).WithSmartSemicolon(smart).Build("")
}

// Lexeme returns a representative source text for a token type.
func Lexeme(t token.Type) string {
	switch t {
	case token.IDENT:
		return "a"
	case token.INT:
		return "1"
	case token.FLOAT:
		return "1.5"
	case token.STRING:
		return "s"
	case token.RAW_STRING:
		return "r"
	case token.ILLEGAL:
		return "#"
	case token.EOF:
		return ""
	case token.NULL:
		return "null"
	}
	return t.String()
}

// Contexts are concrete token prefixes that put the parser into each of its
// nested states before the symbolic tokens start.
var Contexts = [][]token.Type{
	{},
	{token.FUNCTION, token.IDENT, token.LPAREN, token.RPAREN, token.LBRACE},
	{token.FUNCTION, token.IDENT, token.LPAREN, token.IDENT, token.COMMA},
	{token.IF, token.LPAREN, token.IDENT, token.RPAREN},
	{token.IF, token.LPAREN, token.IDENT, token.RPAREN, token.IDENT, token.SEMICOLON, token.ELSE},
	{token.WHILE, token.LPAREN},
	{token.FOR, token.LPAREN},
	{token.FOR, token.LPAREN, token.LET, token.IDENT, token.ASSIGN, token.INT, token.SEMICOLON},
	{token.FOR, token.LPAREN, token.SEMICOLON, token.SEMICOLON},
	{token.LET, token.IDENT, token.ASSIGN},
	{token.RETURN},
	{token.IDENT, token.ASSIGN, token.LBRACKET, token.IDENT, token.COMMA},
	{token.IDENT, token.LPAREN, token.IDENT, token.COMMA},
	{token.IDENT, token.ASSIGN, token.LBRACE, token.IDENT, token.COLON},
	{token.IDENT, token.ASSIGN, token.LBRACE, token.IDENT, token.COLON, token.IDENT, token.COMMA},
	{token.IDENT, token.DOT},
	{token.IDENT, token.LBRACKET},
	{token.LPAREN, token.IDENT},
	{token.IDENT, token.ASSIGN, token.FUNCTION, token.LPAREN},
	{token.IDENT, token.ASSIGN, token.FUNCTION, token.LPAREN, token.RPAREN, token.LBRACE},
	{token.LBRACE, token.IDENT, token.SEMICOLON},
	{token.IDENT, token.PLUS},
	{token.MINUS},
	{token.IDENT, token.INCREMENT},
	{token.FUNCTION, token.IDENT, token.LPAREN, token.RPAREN, token.LBRACE, token.RETURN},
	{token.IDENT, token.PLUS_ASSIGN},
	{token.LBRACE, token.LBRACE},
}

// ContextScript = one of the contexts (chosen by forking; param "ctx" < 0
// means all) followed by n arbitrary tokens.
func ContextScript(n int) *Script {
	c := sym.Param("ctx", -1)
	if c < 0 {
		c = sym.Choose("context", len(Contexts))
	}
	s := &Script{}
	for _, t := range Contexts[c] {
		s.Toks = append(s.Toks, symTok(t, Lexeme(t)))
	}
	for i := 0; i < n; i++ {
		t := sym.Int("type")
		sym.Assume(sym.And(sym.And(t >= 0, t < NumTokenTypes), t != int(token.EOF)))
		s.Toks = append(s.Toks, symTok(token.Type(t), "1"))
	}
	s.EOF = symTok(token.EOF, "")
	return s
}
