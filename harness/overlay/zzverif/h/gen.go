package h

// gen: exhaustive generator of subset programs. Tree shape is chosen by
// sym.Choose (explored by forking); operator identities are symbolic integers
// constrained to their ECMAScript precedence class (solver-quantified); line
// breaks are symbolic flags wherever ECMAScript permits one. The generator
// emits, in one pass, the token script (the unparse) and the expected tree
// digest, using its own copy of the ECMAScript precedence levels — nothing
// here reads xjs's tables.

import (
	"github.com/xjslang/xjs/token"
	"github.com/xjslang/xjs/zzverif/sym"
)

// ECMAScript levels (independent copy).
const (
	lvAssign  = 2
	lvOr      = 3
	lvAnd     = 4
	lvEq      = 5
	lvCmp     = 6
	lvSum     = 7
	lvProd    = 8
	lvUnary   = 9
	lvPostfix = 10
	lvCall    = 11
	lvMember  = 12
	lvAtom    = 13
)

var binaryClasses = [][]token.Type{
	lvOr:   {token.OR},
	lvAnd:  {token.AND},
	lvEq:   {token.EQ, token.NOT_EQ},
	lvCmp:  {token.LT, token.GT, token.LTE, token.GTE},
	lvSum:  {token.PLUS, token.MINUS},
	lvProd: {token.MULTIPLY, token.DIVIDE, token.MODULO},
}

// Nesting contexts recorded per token (oracle R9 for C16).
const (
	NestGlobal   = 0
	NestFunction = 1
	NestBlock    = 2
)

type Gen struct {
	Toks   []token.Token
	Dig    []int
	Budget int
	// options
	ConcreteOps bool // operators chosen by forking instead of symbolic
	ConcretePos bool // concrete token positions (column = 2*index; line = number of line breaks inside earlier literals)
	Atoms       int  // number of atom kinds in use
	NoFunc      bool
	MaxList     int // max elements in argument/array/parameter lists
	// per-token oracle data
	InFunc []bool
	Nest   []int
	// state
	inFunc int
	nest   []int
	force  int  // flag for the next token: -1 symbolic, 0 false, 1 true
	Layout bool // symbolic line breaks where allowed (else all false)
	// variations
	Smart     bool  // smart-semicolon layout: a line break before ( or [ separates statements; none inside expressions
	FuseSeps  bool  // allow statements fused without any separator (corruption, C12/C13)
	Fused     []int // indices of first tokens of statements fused to their predecessor
	BlockEnds []int // indices of the closing braces of blocks and function bodies
	// trivia (comments / blank lines attached to tokens)
	TriviaLeft    int   // how many more tokens may carry trivia
	TriviaSites   int   // 0: statement boundaries only, 1: any token that may follow a line break
	TriviaKinds   int   // number of trivia shapes in use
	SymComments   bool  // comment bytes symbolic (printable) instead of "c"
	Decorated     []int // indices of tokens carrying trivia
	site          bool  // the next token is a statement-boundary token
	noTrivia      int   // >0: inside a for header or while inserting tokens
	StmtFirst     []int // index of the first token of every statement (in generation order)
	Palette       int   // >0: leaves are drawn from the first Palette entries of the expression palette
	NoBreak       []int // indices of tokens that must not follow a line break (restricted productions)
	Boundaries    []int // indices of first tokens of statements whose predecessor needs a separator
	ElseAfterExpr []int // indices of the `else` (or the `;` before it) that follows an expression-ended branch
	HeaderEnds    []int // indices of the ) that closes an if / while / for header (a body must follow)
}

func NewGen(budget int) *Gen {
	return &Gen{Budget: budget, force: -1, Palette: sym.Param("palette", 0), Atoms: sym.Param("atoms", 2), MaxList: sym.Param("maxlist", 2), Layout: true, nest: []int{NestGlobal}}
}

func (g *Gen) emit(v ...int) { g.Dig = append(g.Dig, v...) }

func (g *Gen) tok(t token.Type, lit string) int {
	tk := token.Token{Type: t, Literal: lit}
	idx := len(g.Toks)
	if g.ConcretePos {
		tk.Start = token.Position{Line: 0, Column: idx * 2}
		tk.End = token.Position{Line: 0, Column: idx*2 + 1}
	} else {
		tk.Start = token.Position{Line: symPos("start.line"), Column: symPos("start.col")}
		tk.End = token.Position{Line: symPos("end.line"), Column: idx}
	}
	if g.force == 0 {
		g.NoBreak = append(g.NoBreak, idx)
	}
	switch {
	case g.force == 0:
		tk.AfterNewline = false
	case g.force == 1:
		tk.AfterNewline = true
	case g.Layout:
		tk.AfterNewline = sym.Bool("nl")
	}
	if g.TriviaLeft > 0 && g.noTrivia == 0 && g.force != 0 && (g.site || g.TriviaSites == 1) {
		if k := sym.Choose("trivia", 1+g.TriviaKinds); k > 0 {
			tk.LeadingComments = g.trivia(k)
			tk.AfterNewline = true
			if idx == 0 && len(tk.LeadingComments) > 0 && tk.LeadingComments[0] != "" {
				// a comment at the very start of the input has no line break before it...
				// but one after it
				tk.AfterNewline = true
			}
			g.TriviaLeft--
			g.Decorated = append(g.Decorated, idx)
		}
	}
	g.site = false
	g.force = -1
	g.Toks = append(g.Toks, tk)
	g.InFunc = append(g.InFunc, g.inFunc > 0)
	g.Nest = append(g.Nest, g.nest[len(g.nest)-1])
	return idx
}

func (g *Gen) kw(t token.Type) int { return g.tok(t, Lexeme(t)) }

func (g *Gen) comment(name string) string {
	if !g.SymComments {
		return name
	}
	n := 1 + sym.Choose("commentlen", sym.Param("commentlen", 2))
	c := sym.String("comment", n)
	for i := 0; i < n; i++ {
		// printable ASCII or any byte of a multi-byte character (comment text is copied byte for byte);
		// the last byte is not a space (the lexer trims them)
		sym.Assume(sym.And(c[i] >= 0x20, c[i] != 0x7f))
	}
	// the last byte is visible ASCII: trailing white space of a comment (ASCII or Unicode, e.g. U+00A0 at the
	// very end of the output) is trimmed by the lexer / the final TrimSpace and is outside the claim
	sym.Assume(sym.And(c[n-1] > ' ', c[n-1] <= 0x7e))
	return c
}

// trivia returns the LeadingComments value the lexer would attach for one of
// the source layouts: 1 own-line comment, 2 trailing comment (same line as the
// previous token), 3 one blank line, 4 blank line + two own-line comments,
// 5 trailing comment followed by an own-line comment, 6 two blank lines.
func (g *Gen) trivia(k int) []string {
	switch k {
	case 1:
		return []string{"", g.comment("c")}
	case 2:
		return []string{g.comment("t")}
	case 3:
		return []string{"", ""}
	case 4:
		return []string{"", "", g.comment("c"), g.comment("d")}
	case 6:
		// two blank lines
		return []string{"", "", ""}
	default:
		return []string{g.comment("t"), g.comment("c")}
	}
}

// opIn returns an operator token type of the class: symbolic (one solver
// variable) unless ConcreteOps.
func (g *Gen) opIn(class []token.Type, name string) token.Type {
	if len(class) == 1 {
		return class[0]
	}
	if g.ConcreteOps {
		return class[sym.Choose(name, len(class))]
	}
	v := sym.Int(name)
	ok := false
	for _, c := range class {
		ok = sym.Or(ok, v == int(c))
	}
	sym.Assume(ok)
	return token.Type(v)
}

func (g *Gen) opTok(t token.Type) int {
	// the literal of an operator token is its text; with a symbolic type the
	// text is irrelevant to the parser (it copies it into Operator)
	if g.ConcreteOps {
		return g.tok(t, Lexeme(t))
	}
	return g.tok(t, "op")
}

// propNameTypes: after a dot ECMAScript takes any IdentifierName, reserved words included.
var propNameTypes = []token.Type{token.IDENT, token.FUNCTION, token.LET, token.IF, token.ELSE, token.WHILE, token.FOR, token.RETURN, token.TRUE, token.FALSE, token.NULL}

// propName emits the property name of a member access: an identifier or a
// keyword (token level: one solver variable over both; text level: `p`, or
// with kwprops=1 also `null` / `return`).
func (g *Gen) propName() {
	switch {
	case !g.ConcreteOps:
		g.tok(g.opIn(propNameTypes, "prop"), "p")
	case sym.Param("kwprops", 0) == 1:
		switch sym.Choose("prop", 3) {
		case 0:
			g.tok(token.IDENT, "p")
		case 1:
			g.tok(token.NULL, "null")
		default:
			g.tok(token.RETURN, "return")
		}
	default:
		g.tok(token.IDENT, "p")
	}
}

func (g *Gen) spend() bool {
	if g.Budget > 0 {
		g.Budget--
		return true
	}
	return false
}

// ---------------------------------------------------------------- expressions

const (
	eAtom = iota
	eBinary
	eAssign
	eCompound
	eUnary
	ePrefixIncDec
	ePostfix
	eCall
	eMember
	eIndex
	eGroup
	eArray
	eObject
	eFunc
	numExprKinds
)

func (g *Gen) atom() {
	switch sym.Choose("atom", g.Atoms) {
	case 0:
		g.tok(token.IDENT, "a")
		g.emit(KIdent)
	case 1:
		g.tok(token.INT, "1")
		g.emit(KInt)
	case 2:
		g.tok(token.STRING, "s")
		g.emit(KString)
	case 3:
		g.tok(token.TRUE, "true")
		g.emit(KBool, int(token.TRUE))
	case 4:
		g.tok(token.NULL, "null")
		g.emit(KNull)
	case 5:
		g.tok(token.FLOAT, "1.5")
		g.emit(KFloat)
	case 6:
		g.tok(token.RAW_STRING, "r")
		g.emit(KRaw)
	default:
		g.tok(token.FALSE, "false")
		g.emit(KBool, int(token.FALSE))
	}
}

// Expr generates an expression for a position that admits level >= ctx
// without parentheses.
func (g *Gen) Expr(ctx int) {
	kind := eAtom
	if g.Budget > 0 {
		n := numExprKinds
		if g.NoFunc {
			n = eFunc
		}
		if mask := sym.Param("exprmask", 0); mask != 0 {
			// restrict internal nodes to the expression kinds whose bit is set
			var sel []int
			for i := 0; i < n; i++ {
				if i == eAtom || mask&(1<<uint(i)) != 0 {
					sel = append(sel, i)
				}
			}
			kind = sel[sym.Choose("expr", len(sel))]
		} else {
			kind = sym.Choose("expr", n)
		}
	}
	if kind == eAtom {
		if g.Palette > 0 {
			g.paletteExpr(ctx)
			return
		}
		g.atom()
		return
	}
	g.spend()
	lvl := lvAtom
	binLevel := 0
	switch kind {
	case eBinary:
		binLevel = lvOr + sym.Choose("level", sym.Param("binlevels", 6))
		lvl = binLevel
	case eAssign, eCompound:
		lvl = lvAssign
	case eUnary, ePrefixIncDec:
		lvl = lvUnary
	case ePostfix:
		lvl = lvPostfix
	case eCall:
		lvl = lvCall
	case eMember, eIndex:
		lvl = lvMember
	}
	paren := lvl < ctx
	if paren {
		g.kw(token.LPAREN)
	}
	switch kind {
	case eBinary:
		op := g.opIn(binaryClasses[binLevel], "binop")
		g.emit(KBinary, int(op))
		g.Expr(binLevel)
		g.opTok(op)
		g.Expr(binLevel + 1)
	case eAssign:
		g.emit(KAssign)
		g.Target()
		g.kw(token.ASSIGN)
		g.Expr(lvAssign)
	case eCompound:
		op := g.opIn([]token.Type{token.PLUS_ASSIGN, token.MINUS_ASSIGN}, "compound")
		g.emit(KCompound, int(op))
		g.Target()
		g.opTok(op)
		g.Expr(lvAssign)
	case eUnary:
		op := g.opIn([]token.Type{token.NOT, token.MINUS}, "unop")
		g.emit(KUnary, int(op))
		g.opTok(op)
		g.Expr(lvUnary)
	case ePrefixIncDec:
		op := g.opIn([]token.Type{token.INCREMENT, token.DECREMENT}, "incdec")
		g.emit(KUnary, int(op))
		g.opTok(op)
		g.Target()
	case ePostfix:
		op := g.opIn([]token.Type{token.INCREMENT, token.DECREMENT}, "incdec")
		g.emit(KPostfix, int(op))
		g.Target()
		g.force = 0 // restricted production: no line break before postfix ++/--
		g.opTok(op)
	case eCall:
		g.emit(KCall)
		g.Callee()
		g.infixOpen(token.LPAREN)
		g.list(token.RPAREN)
	case eMember:
		g.emit(KMember)
		g.Callee()
		g.kw(token.DOT)
		g.propName()
		g.emit(KIdent)
	case eIndex:
		g.emit(KIndex)
		g.Callee()
		g.infixOpen(token.LBRACKET)
		g.Expr(lvAssign)
		g.kw(token.RBRACKET)
	case eGroup:
		// explicit, possibly redundant, parentheses (skipped in the digest)
		g.kw(token.LPAREN)
		g.Expr(lvAssign)
		g.kw(token.RPAREN)
	case eArray:
		g.emit(KArray)
		g.kw(token.LBRACKET)
		g.list(token.RBRACKET)
	case eObject:
		n := sym.Choose("props", 2)
		g.emit(KObject, n)
		g.kw(token.LBRACE)
		for i := 0; i < n; i++ {
			g.tok(token.IDENT, "k")
			g.emit(KIdent)
			g.kw(token.COLON)
			g.Expr(lvAssign)
		}
		g.kw(token.RBRACE)
	case eFunc:
		g.emit(KFuncExpr)
		g.kw(token.FUNCTION)
		if sym.Choose("named", 2) == 1 {
			g.emit(1)
			g.tok(token.IDENT, "f")
			g.emit(KIdent)
		} else {
			g.emit(0)
		}
		g.funcRest()
	}
	if paren {
		g.kw(token.RPAREN)
	}
}

// paletteExpr emits one of a fixed palette of small expressions (used when the
// node budget is exhausted, so that statement structure can be explored with
// interesting leaves: object/function values, groups, signs, template strings).
func (g *Gen) paletteExpr(ctx int) {
	k := sym.Choose("leaf", g.Palette)
	if mask := sym.Param("palettemask", 0); mask != 0 {
		// restrict the palette to the entries whose bit is set
		var sel []int
		for i := 0; i < 12; i++ {
			if mask&(1<<uint(i)) != 0 {
				sel = append(sel, i)
			}
		}
		sym.Assume(k < len(sel))
		k = sel[k%len(sel)]
	}
	levels := []int{lvAtom, lvAssign, lvAtom, lvAtom, lvAtom, lvUnary, lvPostfix, lvMember, lvCall, lvAtom, lvSum, lvAtom}
	paren := levels[k] < ctx
	if paren {
		g.kw(token.LPAREN)
	}
	id := func() {
		g.tok(token.IDENT, "a")
		g.emit(KIdent)
	}
	switch k {
	case 0:
		id()
	case 1:
		g.emit(KAssign)
		id()
		g.kw(token.ASSIGN)
		g.emit(KObject, 0)
		g.kw(token.LBRACE)
		g.kw(token.RBRACE)
	case 2:
		g.emit(KFuncExpr, 0, 0, KBlock, 0, KEnd)
		g.kw(token.FUNCTION)
		g.kw(token.LPAREN)
		g.kw(token.RPAREN)
		g.kw(token.LBRACE)
		g.BlockEnds = append(g.BlockEnds, g.kw(token.RBRACE))
	case 3:
		g.emit(KArray, 1)
		g.kw(token.LBRACKET)
		id()
		g.kw(token.RBRACKET)
	case 4:
		g.kw(token.LPAREN)
		id()
		g.kw(token.RPAREN)
	case 5:
		g.emit(KUnary, int(token.MINUS))
		g.tok(token.MINUS, "-")
		id()
	case 6:
		g.emit(KPostfix, int(token.INCREMENT))
		id()
		g.force = 0
		g.tok(token.INCREMENT, "++")
	case 7:
		g.emit(KMember)
		id()
		g.kw(token.DOT)
		g.tok(token.IDENT, "p")
		g.emit(KIdent)
	case 8:
		g.emit(KCall)
		id()
		g.infixOpen(token.LPAREN)
		g.emit(0)
		g.kw(token.RPAREN)
	case 9:
		// a multi-line backtick string with a space before the line break
		// (an escaped backtick inside, then a line ending in a space)
		g.tok(token.RAW_STRING, "r` \nq")
		g.emit(KRaw)
	case 10:
		g.emit(KBinary, int(token.PLUS))
		id()
		g.tok(token.PLUS, "+")
		id()
	default:
		// a string with a two-byte character: columns are counted in bytes
		g.tok(token.STRING, "s\u00e9")
		g.emit(KString)
	}
	if paren {
		g.kw(token.RPAREN)
	}
}

// list generates 0..MaxList comma separated expressions and the closer.
func (g *Gen) list(end token.Type) {
	n := 0
	if g.Budget > 0 {
		n = sym.Choose("nlist", g.MaxList+1)
	}
	g.emit(n)
	for i := 0; i < n; i++ {
		if i > 0 {
			g.kw(token.COMMA)
		}
		g.Expr(lvAssign)
	}
	g.kw(end)
}

// Callee generates a call-level-or-tighter expression: identifier, member,
// index, call (identifier-rooted so that text renderings stay lexable).
func (g *Gen) Callee() {
	k := 0
	if g.Budget > 0 {
		k = sym.Choose("callee", 4)
	}
	switch k {
	case 0:
		if sym.Param("litcallee", 0) == 1 && sym.Choose("calleelit", 2) == 1 {
			// a decimal integer literal as the object of a member access / call / index (`1 .p` in source text)
			g.tok(token.INT, "1")
			g.emit(KInt)
			return
		}
		g.tok(token.IDENT, "a")
		g.emit(KIdent)
	case 1:
		g.spend()
		g.emit(KMember)
		g.Callee()
		g.kw(token.DOT)
		g.propName()
		g.emit(KIdent)
	case 2:
		g.spend()
		g.emit(KIndex)
		g.Callee()
		g.infixOpen(token.LBRACKET)
		g.Expr(lvAssign)
		g.kw(token.RBRACKET)
	case 3:
		g.spend()
		g.emit(KCall)
		g.Callee()
		g.infixOpen(token.LPAREN)
		g.list(token.RPAREN)
	}
}

// Target generates an assignment target: identifier, member or index.
func (g *Gen) Target() {
	k := 0
	if g.Budget > 0 {
		k = sym.Choose("target", 3)
	}
	switch k {
	case 0:
		g.tok(token.IDENT, "a")
		g.emit(KIdent)
	case 1:
		g.spend()
		g.emit(KMember)
		g.Callee()
		g.kw(token.DOT)
		g.propName()
		g.emit(KIdent)
	case 2:
		g.spend()
		g.emit(KIndex)
		g.Callee()
		g.infixOpen(token.LBRACKET)
		g.Expr(lvAssign)
		g.kw(token.RBRACKET)
	}
}

// infixOpen emits the ( of a call or the [ of an index. In smart-semicolon
// layouts these never follow a line break (there a break before ( or [
// always separates statements).
func (g *Gen) infixOpen(t token.Type) {
	if g.Smart {
		g.force = 0
	}
	g.kw(t)
}

// funcRest: ( params ) { body }
func (g *Gen) funcRest() {
	g.kw(token.LPAREN)
	n := sym.Choose("nparams", g.MaxList+1)
	g.emit(n)
	for i := 0; i < n; i++ {
		if i > 0 {
			g.kw(token.COMMA)
		}
		g.tok(token.IDENT, "x")
		g.emit(KIdent)
	}
	g.kw(token.RPAREN)
	g.Block(NestFunction)
}

// ---------------------------------------------------------------- statements

const (
	sExpr = iota
	sLet
	sIf
	sWhile
	sFor
	sBlock
	sFuncDecl
	sReturn
	numStmtKinds
)

// continuation: a token that, at the start of a line, continues the previous
// statement in ECMAScript (so a line break alone is not a separator).
func continues(t token.Type) bool {
	switch t {
	case token.LPAREN, token.LBRACKET, token.PLUS, token.MINUS, token.MULTIPLY, token.DIVIDE, token.MODULO,
		token.LT, token.GT, token.LTE, token.GTE, token.EQ, token.NOT_EQ, token.AND, token.OR,
		token.ASSIGN, token.PLUS_ASSIGN, token.MINUS_ASSIGN, token.DOT, token.RAW_STRING, token.COMMA:
		return true
	}
	return false
}

// Block: { statements }. The nesting entry (function body or plain block)
// is in force for the tokens between the braces.
func (g *Gen) Block(nestKind int) {
	g.kw(token.LBRACE)
	g.nest = append(g.nest, nestKind)
	if nestKind == NestFunction {
		g.inFunc++
	}
	n := 0
	if g.Budget > 0 {
		n = sym.Choose("nstmts", 3)
	}
	g.emit(KBlock, n)
	g.stmtList(n, token.RBRACE)
	g.emit(KEnd)
	if nestKind == NestFunction {
		g.inFunc--
	}
	g.nest = g.nest[:len(g.nest)-1]
	g.site = true
	g.BlockEnds = append(g.BlockEnds, g.kw(token.RBRACE))
}

// stmtList generates n statements with separators; closer is the token type
// that follows the list (RBRACE or EOF).
func (g *Gen) stmtList(n int, closer token.Type) {
	needSep := false // the previous statement still needs a separator
	for i := 0; i < n; i++ {
		start := len(g.Toks)
		ns := g.Stmt(false, false)
		if needSep {
			g.Boundaries = append(g.Boundaries, start)
			g.separate(start)
		}
		needSep = ns
	}
	if needSep {
		// before } or end of input the separator may be omitted
		if sym.Choose("lastsep", 2) == 1 {
			g.kw(token.SEMICOLON)
		}
	}
}

// separate puts a separator between the previous statement and the one whose
// first token is at index start: `;` or, where ECMAScript inserts one, a line
// break only.
func (g *Gen) separate(start int) {
	first := g.Toks[start].Type
	if g.FuseSeps && startsOperand(first) && endsOperand(g.Toks[start-1].Type) && sym.Choose("fuse", 2) == 1 {
		// corruption: no separator and no line break between two statements
		g.Toks[start].AfterNewline = false
		g.Fused = append(g.Fused, start)
		return
	}
	useSemi := true
	canBreak := !g.firstContinues(first)
	if g.Smart && (first == token.LPAREN || first == token.LBRACKET) {
		canBreak = true
	}
	if canBreak && g.Layout {
		useSemi = sym.Choose("sep", 2) == 0
	}
	if useSemi {
		g.insert(start, token.SEMICOLON)
	} else {
		g.Toks[start].AfterNewline = true
	}
}

// startsOperand / endsOperand: two such tokens in a row, on one line, are
// never valid JavaScript (no operator, no separator, no line break for ASI).
func startsOperand(t token.Type) bool {
	switch t {
	case token.IDENT, token.INT, token.FLOAT, token.STRING, token.TRUE, token.FALSE, token.NULL,
		token.LET, token.IF, token.WHILE, token.FOR, token.FUNCTION, token.RETURN:
		return true
	}
	return false
}

// endsOperand: last token of a statement that ends with an expression (the
// generator only asks at boundaries after let / return / expression statements).
func endsOperand(t token.Type) bool {
	switch t {
	case token.IDENT, token.INT, token.FLOAT, token.STRING, token.TRUE, token.FALSE, token.NULL,
		token.RPAREN, token.RBRACKET, token.RBRACE, token.RAW_STRING, token.INCREMENT, token.DECREMENT:
		return true
	}
	return false
}

func (g *Gen) firstContinues(t token.Type) bool {
	if continues(t) {
		return true
	}
	// ++/-- after a line break start a new statement in ECMAScript (restricted
	// production); a symbolic operator token is only ever a prefix operator here
	return false
}

func (g *Gen) insert(at int, t token.Type) {
	g.noTrivia++
	g.kw(t)
	g.noTrivia--
	for i := range g.Decorated {
		if g.Decorated[i] >= at {
			g.Decorated[i]++
		}
	}
	for i := range g.NoBreak {
		if g.NoBreak[i] >= at {
			g.NoBreak[i]++
		}
	}
	for i := range g.HeaderEnds {
		if g.HeaderEnds[i] >= at {
			g.HeaderEnds[i]++
		}
	}
	for i := range g.Boundaries {
		if g.Boundaries[i] >= at {
			g.Boundaries[i]++
		}
	}
	for i := range g.ElseAfterExpr {
		if g.ElseAfterExpr[i] >= at {
			g.ElseAfterExpr[i]++
		}
	}
	for i := range g.StmtFirst {
		if g.StmtFirst[i] >= at {
			g.StmtFirst[i]++
		}
	}
	tk := g.Toks[len(g.Toks)-1]
	inF, ne := g.InFunc[at], g.Nest[at]
	copy(g.Toks[at+1:], g.Toks[at:len(g.Toks)-1])
	copy(g.InFunc[at+1:], g.InFunc[at:len(g.InFunc)-1])
	copy(g.Nest[at+1:], g.Nest[at:len(g.Nest)-1])
	g.Toks[at], g.InFunc[at], g.Nest[at] = tk, inF, ne
	for i := range g.Fused {
		if g.Fused[i] >= at {
			g.Fused[i]++
		}
	}
	for i := range g.BlockEnds {
		if g.BlockEnds[i] >= at {
			g.BlockEnds[i]++
		}
	}
	if g.ConcretePos {
		for i := range g.Toks {
			g.Toks[i].Start.Column = i * 2
			g.Toks[i].End.Column = i*2 + 1
		}
	} else {
		for i := range g.Toks {
			g.Toks[i].End.Column = i
		}
	}
}

// Stmt generates one statement; it reports whether the statement still needs
// a separator (`;`, line break, or a following `}` / end of input).
// body: the statement is the body of if/while/for (no declarations).
// closed: the statement must not end in an else-less if (it is followed by
// `else`, which would otherwise attach to that inner if).
func (g *Gen) Stmt(body, closed bool) bool {
	g.site = true
	g.StmtFirst = append(g.StmtFirst, len(g.Toks))
	kind := sExpr
	if g.Budget > 0 && sym.Param("exprstmtonly", 0) == 0 {
		// closed: while/for are fine (their body is generated closed as well);
		// an if must then carry an else
		kinds := []int{sExpr, sBlock, sIf, sWhile, sFor}
		if !body {
			kinds = append(kinds, sLet)
			if !g.NoFunc {
				kinds = append(kinds, sFuncDecl)
			}
		}
		if g.inFunc > 0 {
			kinds = append(kinds, sReturn)
		}
		if mask := sym.Param("stmtmask", 0); mask != 0 {
			// restrict statements to the kinds whose bit is set (expression statements always)
			var sel []int
			for _, k := range kinds {
				if k == sExpr || mask&(1<<uint(k)) != 0 {
					sel = append(sel, k)
				}
			}
			kinds = sel
		}
		kind = kinds[sym.Choose("stmt", len(kinds))]
	} else if g.Palette > 0 && sym.Choose("emptyblock", 2) == 1 {
		// with palette leaves, an empty block is available at no cost
		g.emit(KBlock, 0, KEnd)
		g.kw(token.LBRACE)
		g.site = true
		g.BlockEnds = append(g.BlockEnds, g.kw(token.RBRACE))
		return false
	}
	switch kind {
	case sExpr:
		g.emit(KExprStmt)
		start := len(g.Toks)
		g.Expr(lvAssign)
		// an expression statement cannot begin with { or function
		if ft := g.Toks[start].Type; ft == token.LBRACE || ft == token.FUNCTION {
			g.insert(start, token.LPAREN)
			g.kw(token.RPAREN)
		}
		return true
	case sLet:
		g.spend()
		g.emit(KLet)
		g.kw(token.LET)
		g.tok(token.IDENT, "v")
		g.emit(KIdent)
		if sym.Choose("init", 2) == 1 {
			g.kw(token.ASSIGN)
			g.Expr(lvAssign)
		} else {
			g.emit(KNil)
		}
		return true
	case sIf:
		g.spend()
		g.emit(KIf)
		g.kw(token.IF)
		g.kw(token.LPAREN)
		g.Expr(lvAssign)
		g.HeaderEnds = append(g.HeaderEnds, g.kw(token.RPAREN))
		hasElse := closed || ((g.Budget > 0 || g.Palette > 0) && sym.Choose("else", 2) == 1)
		ns := g.Stmt(true, hasElse)
		if hasElse {
			g.emit(1)
			if ns {
				g.ElseAfterExpr = append(g.ElseAfterExpr, len(g.Toks))
				// `;` or a line break must precede else
				if g.Layout && sym.Choose("elsesep", 2) == 1 {
					g.force = 1
				} else {
					g.kw(token.SEMICOLON)
				}
			}
			g.kw(token.ELSE)
			return g.Stmt(true, closed)
		}
		g.emit(0)
		return ns
	case sWhile:
		g.spend()
		g.emit(KWhile)
		g.kw(token.WHILE)
		g.kw(token.LPAREN)
		g.Expr(lvAssign)
		g.HeaderEnds = append(g.HeaderEnds, g.kw(token.RPAREN))
		return g.Stmt(true, closed)
	case sFor:
		g.spend()
		g.emit(KFor)
		g.kw(token.FOR)
		g.kw(token.LPAREN)
		g.noTrivia++
		switch sym.Choose("forinit", 3) {
		case 0:
			g.emit(KNil)
		case 1:
			g.emit(KLetExpr)
			g.kw(token.LET)
			g.tok(token.IDENT, "i")
			g.emit(KIdent)
			g.kw(token.ASSIGN)
			g.Expr(lvAssign)
		case 2:
			g.Expr(lvAssign)
		}
		g.kw(token.SEMICOLON)
		if sym.Choose("forcond", 2) == 1 {
			g.Expr(lvAssign)
		} else {
			g.emit(KNil)
		}
		g.kw(token.SEMICOLON)
		if sym.Choose("forupdate", 2) == 1 {
			g.Expr(lvAssign)
		} else {
			g.emit(KNil)
		}
		g.HeaderEnds = append(g.HeaderEnds, g.kw(token.RPAREN))
		g.noTrivia--
		return g.Stmt(true, closed)
	case sBlock:
		g.spend()
		g.Block(NestBlock)
		return false
	case sFuncDecl:
		g.spend()
		g.emit(KFuncDecl)
		g.kw(token.FUNCTION)
		g.tok(token.IDENT, "f")
		g.emit(KIdent)
		g.funcRest()
		return false
	case sReturn:
		g.spend()
		g.emit(KReturn)
		g.kw(token.RETURN)
		if sym.Choose("retval", 2) == 1 {
			g.force = 0 // restricted production: no line break after return
			g.Expr(lvAssign)
		} else {
			g.emit(KNil)
		}
		return true
	}
	return false
}

// Program generates a whole program of 1..maxStmts statements.
func (g *Gen) Program(maxStmts int) *Script {
	if sym.Param("wrapfunc", 0) == 1 {
		// the statements form the body of one function declaration (at no cost):
		// `return` is available from the first statement on
		g.emit(KProgram, 1)
		g.site = true
		g.StmtFirst = append(g.StmtFirst, len(g.Toks))
		g.emit(KFuncDecl)
		g.kw(token.FUNCTION)
		g.tok(token.IDENT, "f")
		g.emit(KIdent)
		g.kw(token.LPAREN)
		g.emit(0)
		g.kw(token.RPAREN)
		g.kw(token.LBRACE)
		g.nest = append(g.nest, NestFunction)
		g.inFunc++
		n := 1 + sym.Choose("nprog", maxStmts)
		g.emit(KBlock, n)
		g.stmtList(n, token.RBRACE)
		g.emit(KEnd)
		g.inFunc--
		g.nest = g.nest[:len(g.nest)-1]
		g.site = true
		g.BlockEnds = append(g.BlockEnds, g.kw(token.RBRACE))
	} else {
		n := 1 + sym.Choose("nprog", maxStmts)
		g.emit(KProgram, n)
		g.stmtList(n, token.EOF)
	}
	g.emit(KEnd)
	s := &Script{Toks: g.Toks}
	s.EOF = symTok(token.EOF, "")
	s.EOF.End.Column = len(g.Toks)
	if g.TriviaLeft > 0 && sym.Param("eoftrivia", 1) == 1 {
		if k := sym.Choose("trivia", 1+g.TriviaKinds); k > 0 {
			s.EOF.LeadingComments = g.trivia(k)
			s.EOF.AfterNewline = true
			g.TriviaLeft--
			g.Decorated = append(g.Decorated, len(g.Toks))
		}
	}
	if g.ConcretePos {
		// lines: a literal containing a line break ends one line further down and
		// everything after it starts there (columns stay globally increasing)
		line := 0
		for i := range g.Toks {
			g.Toks[i].Start.Line = line
			if t := g.Toks[i]; t.Type == token.RAW_STRING || t.Type == token.STRING {
				for k := 0; k < len(t.Literal); k++ {
					if t.Literal[k] == '\n' {
						line++
					}
				}
			}
			g.Toks[i].End.Line = line
		}
		s.Toks = g.Toks
		s.EOF.Start = token.Position{Line: line, Column: 2 * len(g.Toks)}
		s.EOF.End = s.EOF.Start
	}
	return s
}
