package h

// R4: the value of ECMAScript string literals and (cooked) template strings,
// as a sequence of UTF-16 code units. Independent of xjs's lexer.

func hexVal(c byte) int {
	switch {
	case c >= '0' && c <= '9':
		return int(c - '0')
	case c >= 'a' && c <= 'f':
		return int(c-'a') + 10
	case c >= 'A' && c <= 'F':
		return int(c-'A') + 10
	}
	return -1
}

func appendCodePoint(out []int, cp int) []int {
	if cp > 0xFFFF {
		cp -= 0x10000
		return append(out, 0xD800+(cp>>10), 0xDC00+(cp&0x3FF))
	}
	return append(out, cp)
}

// RStringValue computes SV of the text between the delimiters. template:
// template-string rules (\` and \$ escapes, CR/CRLF normalised to LF, raw line
// breaks allowed). ok=false: not a valid literal body (bad escape, ill-formed
// UTF-8, raw line break in a quoted string, legacy octal escape).
func RStringValue(body string, template bool) ([]int, bool) {
	var out []int
	i := 0
	n := len(body)
	for i < n {
		c := body[i]
		if c == '\\' {
			if i+1 >= n {
				return nil, false
			}
			e := body[i+1]
			i += 2
			switch e {
			case 'n':
				out = append(out, '\n')
			case 't':
				out = append(out, '\t')
			case 'r':
				out = append(out, '\r')
			case 'b':
				out = append(out, 8)
			case 'f':
				out = append(out, 12)
			case 'v':
				out = append(out, 11)
			case '0':
				if i < n && body[i] >= '0' && body[i] <= '9' {
					return nil, false // legacy octal
				}
				out = append(out, 0)
			case '1', '2', '3', '4', '5', '6', '7', '8', '9':
				return nil, false
			case 'x':
				if i+1 >= n || hexVal(body[i]) < 0 || hexVal(body[i+1]) < 0 {
					return nil, false
				}
				out = append(out, hexVal(body[i])*16+hexVal(body[i+1]))
				i += 2
			case 'u':
				if i < n && body[i] == '{' {
					j := i + 1
					v := 0
					nd := 0
					for j < n && body[j] != '}' {
						h := hexVal(body[j])
						if h < 0 {
							return nil, false
						}
						v = v*16 + h
						if v > 0x10FFFF {
							return nil, false
						}
						nd++
						j++
					}
					if j >= n || nd == 0 {
						return nil, false
					}
					out = appendCodePoint(out, v)
					i = j + 1
				} else {
					if i+3 >= n {
						return nil, false
					}
					v := 0
					for k := 0; k < 4; k++ {
						h := hexVal(body[i+k])
						if h < 0 {
							return nil, false
						}
						v = v*16 + h
					}
					out = append(out, v)
					i += 4
				}
			case '\n':
				// line continuation
			case '\r':
				if i < n && body[i] == '\n' {
					i++
				}
			default:
				if e >= 0x80 {
					// escaped non-ASCII character: decode it (U+2028/2029 are
					// line continuations; not distinguished here)
					cp, sz, ok := decodeUTF8(body, i-1)
					if !ok {
						return nil, false
					}
					out = appendCodePoint(out, cp)
					i = i - 1 + sz
				} else {
					out = append(out, int(e))
				}
			}
			continue
		}
		if c == '\r' || c == '\n' {
			if !template {
				return nil, false
			}
			if c == '\r' && i+1 < n && body[i+1] == '\n' {
				i++
			}
			out = append(out, '\n')
			i++
			continue
		}
		if c < 0x80 {
			out = append(out, int(c))
			i++
			continue
		}
		cp, sz, ok := decodeUTF8(body, i)
		if !ok {
			return nil, false
		}
		out = appendCodePoint(out, cp)
		i += sz
	}
	return out, true
}

// decodeUTF8 strictly decodes one code point (no overlongs, no surrogates,
// <= 10FFFF).
func decodeUTF8(s string, i int) (int, int, bool) {
	c := s[i]
	cont := func(k int) int {
		if i+k >= len(s) || s[i+k]&0xC0 != 0x80 {
			return -1
		}
		return int(s[i+k] & 0x3F)
	}
	switch {
	case c < 0x80:
		return int(c), 1, true
	case c >= 0xC2 && c <= 0xDF:
		a := cont(1)
		if a < 0 {
			return 0, 0, false
		}
		return int(c&0x1F)<<6 | a, 2, true
	case c >= 0xE0 && c <= 0xEF:
		a, b := cont(1), cont(2)
		if a < 0 || b < 0 {
			return 0, 0, false
		}
		cp := int(c&0x0F)<<12 | a<<6 | b
		if cp < 0x800 || (cp >= 0xD800 && cp <= 0xDFFF) {
			return 0, 0, false
		}
		return cp, 3, true
	case c >= 0xF0 && c <= 0xF4:
		a, b, d := cont(1), cont(2), cont(3)
		if a < 0 || b < 0 || d < 0 {
			return 0, 0, false
		}
		cp := int(c&0x07)<<18 | a<<12 | b<<6 | d
		if cp < 0x10000 || cp > 0x10FFFF {
			return 0, 0, false
		}
		return cp, 4, true
	}
	return 0, 0, false
}
