package h

import (
	"github.com/xjslang/xjs/ast"
	"github.com/xjslang/xjs/compiler"
	"github.com/xjslang/xjs/sourcemap"
	"github.com/xjslang/xjs/token"
	"github.com/xjslang/xjs/zzverif/sym"
)

func isKeywordText(s string) bool {
	switch s {
	case "function", "let", "if", "else", "while", "for", "return", "true", "false", "null":
		return true
	}
	return false
}

// dropSemis removes the `;` tokens of a scanned text.
func dropSemis(toks []RTok) []RTok {
	var out []RTok
	for _, t := range toks {
		if t.Kind == RPunct && t.Text == ";" {
			continue
		}
		if t.Kind == REOF {
			continue
		}
		out = append(out, t)
	}
	return out
}

// sourceNoSemis: indices of the source tokens that are not `;`.
func sourceNoSemis(s *Script) []int {
	var out []int
	for i, t := range s.Toks {
		if t.Type != token.SEMICOLON {
			out = append(out, i)
		}
	}
	return out
}

func sameLexeme(src token.Token, out RTok) bool {
	switch src.Type {
	case token.STRING:
		return out.Kind == RString && len(out.Text) >= 2 && out.Text[1:len(out.Text)-1] == src.Literal
	case token.RAW_STRING:
		// the token literal holds escaped backticks decoded; everything else as written
		return out.Kind == RTemplate && len(out.Text) >= 2 && unescapeBackticks(out.Text[1:len(out.Text)-1]) == src.Literal
	}
	return out.Text == src.Literal
}

// ZZH8SourceMap: every segment of the emitted map points from the position
// where a token begins in the generated code to the start of the same token
// in the source; identifiers are covered by named segments; segments are
// ordered by generated position (C08). Source start positions are symbolic.
func ZZH8SourceMap() {
	g, s, prog := GenText(sym.Param("trivia", 0), 1, false)
	_ = g
	pretty := sym.Param("pretty", 0) == 1
	semi := true
	if pretty {
		semi = sym.Bool("semi")
	}
	indent := []int{2, 0, -1, 4}[sym.Choose("indent", sym.Param("indents", 1))]
	c := newCompiler(pretty, semi, indent).WithSourceMap()
	if sym.Param("reuse", 0) == 1 {
		// the compiler object has compiled another program before (sharing an identifier, at another name index)
		c.Compile(&ast.Program{Statements: []ast.Statement{
			&ast.ExpressionStatement{Expression: &ast.Identifier{Token: tk(token.IDENT, "zz"), Value: "zz"}},
			&ast.ExpressionStatement{Expression: &ast.Identifier{Token: tk(token.IDENT, "a"), Value: "a"}},
		}})
	}
	res := c.Compile(prog)
	code := res.Code
	sym.Observe("code", code, pretty, semi)
	sym.Assert(res.SourceMap != nil && res.SourceMap.Version == 3, "map-present-version-3")
	segs, ok := sourcemap.ZZDecode(res.SourceMap.Mappings, sym.Symbolic())
	sym.Assert(ok, "mappings-decodable")
	// the generated code, scanned independently
	out := dropSemis(RScan(code))
	src := sourceNoSemis(s)
	sym.Assert(len(out) == len(src), "output-token-sequence-matches-source")
	if len(out) != len(src) {
		return
	}
	covered := make([]bool, len(out))
	prevLine, prevCol := -1, -1
	for _, sg := range segs {
		sym.Observe("seg", sg.GenLine, sg.GenCol, sg.HasName)
		// ordered by generated position (concrete: decoded from concrete structure)
		gl, gc := sym.Concrete(sg.GenLine), sym.Concrete(sg.GenCol)
		sym.Assert(gl > prevLine || (gl == prevLine && gc >= prevCol), "segments-ordered-by-generated-position")
		prevLine, prevCol = gl, gc
		// the generated position is the start of a token of the output
		j := -1
		for k, t := range out {
			if t.Line == gl && t.Col == gc {
				j = k
			}
		}
		sym.Assert(j >= 0, "segment-points-at-the-start-of-a-generated-token")
		if j < 0 {
			continue
		}
		st := s.Toks[src[j]]
		sym.Assert(sameLexeme(st, out[j]), "generated-token-is-the-same-lexeme")
		sym.Assert(sym.And(sg.SrcLine == st.Start.Line, sg.SrcCol == st.Start.Column), "segment-source-position-is-the-token-start")
		sym.Assert(sg.Src == 0, "single-source")
		if out[j].Kind == RIdent && !isKeywordText(out[j].Text) {
			sym.Assert(sg.HasName, "identifier-segment-carries-a-name")
			if sg.HasName {
				ni := sym.Concrete(sg.Name)
				sym.Assert(ni >= 0 && ni < len(res.SourceMap.Names) && res.SourceMap.Names[ni] == out[j].Text, "identifier-segment-name-is-the-identifier")
			}
			covered[j] = true
		} else {
			sym.Assert(!sg.HasName, "only-identifiers-carry-names")
		}
	}
	for j, t := range out {
		if t.Kind == RIdent && !isKeywordText(t.Text) {
			sym.Assert(covered[j], "every-identifier-occurrence-is-covered")
		}
	}
	sym.Cover("end")
}

var _ = compiler.New

func unescapeBackticks(s string) string {
	out := make([]byte, 0, len(s))
	for i := 0; i < len(s); i++ {
		if s[i] == '\\' && i+1 < len(s) {
			if s[i+1] == '`' {
				out = append(out, '`')
			} else {
				out = append(out, s[i], s[i+1])
			}
			i++
			continue
		}
		out = append(out, s[i])
	}
	return string(out)
}
