package h

import (
	"github.com/xjslang/xjs/ast"
	"github.com/xjslang/xjs/compiler"
	"github.com/xjslang/xjs/lexer"
	"github.com/xjslang/xjs/parser"
	"github.com/xjslang/xjs/token"
	"github.com/xjslang/xjs/zzverif/sym"
)

type icLog struct {
	id  int
	tok int
}

func passStmt(log *[]icLog, id int) parser.Interceptor[ast.Statement] {
	return func(p *parser.Parser, next func() ast.Statement) ast.Statement {
		*log = append(*log, icLog{id, p.CurrentToken.End.Column})
		return next()
	}
}

func passExpr(log *[]icLog, id int) parser.Interceptor[ast.Expression] {
	return func(p *parser.Parser, next func() ast.Expression) ast.Expression {
		*log = append(*log, icLog{id, p.CurrentToken.End.Column})
		return next()
	}
}

func passTok(count *int) lexer.Interceptor {
	return func(l *lexer.Lexer, next func() token.Token) token.Token {
		*count = *count + 1
		return next()
	}
}

// source: a generated program (kind 0) or a malformed token buffer (kind 1)
func c04Source() (*Script, bool) {
	if sym.Param("malformed", 0) == 1 {
		n := sym.Choose("ntokens", sym.Param("T", 2)+1)
		s := ContextScript(n)
		for i := range s.Toks {
			s.Toks[i].End.Column = i
		}
		s.EOF.End.Column = len(s.Toks)
		return s, false
	}
	_, s := GenProgram()
	return s, true
}

type parseResult struct {
	dig    []int
	errs   []parser.ParserError
	code   string
	ok     bool
	nstmts int // statements parsed through the statement parse function (-1: unknown)
}

// countStmts counts the statements of a tree that are parsed through the
// (interceptable) statement parse function: list entries, branches and loop
// bodies, but not function bodies (parsed as blocks directly).
func countStmts(s ast.Statement) int {
	switch v := s.(type) {
	case *ast.BlockStatement:
		n := 1
		for _, st := range v.Statements {
			n += countStmts(st)
		}
		return n
	case *ast.IfStatement:
		n := 1 + countStmts(v.ThenBranch)
		if v.ElseBranch != nil {
			n += countStmts(v.ElseBranch)
		}
		return n + countExprStmts(v.Condition)
	case *ast.WhileStatement:
		return 1 + countStmts(v.Body) + countExprStmts(v.Condition)
	case *ast.ForStatement:
		return 1 + countStmts(v.Body) + countExprStmts(v.Init) + countExprStmts(v.Condition) + countExprStmts(v.Update)
	case *ast.FunctionDeclaration:
		return 1 + countBody(v.Body)
	case *ast.LetStatement:
		return 1 + countExprStmts(v.Value)
	case *ast.ReturnStatement:
		return 1 + countExprStmts(v.ReturnValue)
	case *ast.ExpressionStatement:
		return 1 + countExprStmts(v.Expression)
	}
	return 1
}

func countBody(b *ast.BlockStatement) int {
	n := 0
	if b != nil {
		for _, st := range b.Statements {
			n += countStmts(st)
		}
	}
	return n
}

// countExprStmts counts statements nested inside expressions (function
// expression bodies).
func countExprStmts(e ast.Expression) int {
	if isNilExpr(e) {
		return 0
	}
	switch v := e.(type) {
	case *ast.FunctionExpression:
		return countBody(v.Body)
	case *ast.BinaryExpression:
		return countExprStmts(v.Left) + countExprStmts(v.Right)
	case *ast.UnaryExpression:
		return countExprStmts(v.Right)
	case *ast.PostfixExpression:
		return countExprStmts(v.Left)
	case *ast.GroupedExpression:
		return countExprStmts(v.Expression)
	case *ast.AssignmentExpression:
		return countExprStmts(v.Left) + countExprStmts(v.Value)
	case *ast.CompoundAssignmentExpression:
		return countExprStmts(v.Left) + countExprStmts(v.Value)
	case *ast.LetExpression:
		return countExprStmts(v.Value)
	case *ast.MemberExpression:
		return countExprStmts(v.Object) + countExprStmts(v.Property)
	case *ast.CallExpression:
		n := countExprStmts(v.Function)
		for _, a := range v.Arguments {
			n += countExprStmts(a)
		}
		return n
	case *ast.ArrayLiteral:
		n := 0
		for _, a := range v.Elements {
			n += countExprStmts(a)
		}
		return n
	case *ast.ObjectLiteral:
		n := 0
		for _, pr := range v.Properties {
			n += countExprStmts(pr.Key) + countExprStmts(pr.Value)
		}
		return n
	}
	return 0
}

func parseWith(s *Script, pb *parser.Builder) parseResult {
	p := pb.Build("")
	prog, err := p.ParseProgram()
	d := DigestOf(prog, false)
	r := parseResult{dig: d.Out, errs: p.Errors(), ok: err == nil, nstmts: -1}
	if err == nil && !d.Missing && !d.NilEntry {
		r.code = compiler.New().Compile(prog).Code
		r.nstmts = 0
		for _, st := range prog.Statements {
			r.nstmts += countStmts(st)
		}
	}
	return r
}

// ZZH4aTransparent: pass-through interceptors of the three kinds, installed
// directly or through a plugin, change neither tree, errors nor output.
func ZZH4aTransparent() {
	s, _ := c04Source()
	sym.Observe("script", s.Types(), s.Newlines())
	tolerant := sym.Bool("tolerant")
	s.Rewind()
	base := parseWith(s, parser.NewBuilder(s.LexerBuilder()).WithTolerantMode(tolerant))

	combo := sym.Choose("combo", 6)
	ns, ne, nt := 0, 0, 0
	viaPlugin := false
	switch combo {
	case 0:
		ns = 1
	case 1:
		ne = 1
	case 2:
		nt = 1
	case 3:
		ns, ne, nt = 2, 2, 2
	case 4:
		ns, ne, nt = 3, 3, 1
	case 5:
		ns, ne, nt = 1, 2, 0
		viaPlugin = true
	}
	var slog, elog []icLog
	ntok := 0
	s.Rewind()
	lb := s.LexerBuilder()
	for i := 0; i < nt; i++ {
		lb.UseTokenInterceptor(passTok(&ntok))
	}
	pb := parser.NewBuilder(lb).WithTolerantMode(tolerant)
	install := func(pb *parser.Builder) {
		for i := 0; i < ns; i++ {
			pb.UseStatementInterceptor(passStmt(&slog, i))
		}
		for i := 0; i < ne; i++ {
			pb.UseExpressionInterceptor(passExpr(&elog, i))
		}
	}
	if viaPlugin {
		pb.Install(install)
	} else {
		install(pb)
	}
	got := parseWith(s, pb)
	sym.Observe("result", base.dig, got.dig, len(base.errs), len(got.errs), base.code, got.code)
	sym.Assert(SameInts(base.dig, got.dig), "same-tree-with-pass-through-interceptors")
	sym.Assert(base.ok == got.ok && errorsEqual(base.errs, got.errs), "same-errors-with-pass-through-interceptors")
	sym.Assert(sym.EqStr(base.code, got.code), "same-output-with-pass-through-interceptors")
	// every statement of an accepted program went through the interceptors once
	if got.ok && ns > 0 && got.nstmts >= 0 {
		sym.Assert(len(slog) == ns*got.nstmts, "statement-interceptors-see-every-statement")
	}
	// order: each parse step logs ids 0..n-1 consecutively on one token
	checkGroups(slog, ns, "statement-interceptors-run-once-per-step-in-installation-order")
	checkGroups(elog, ne, "expression-interceptors-run-once-per-step-in-installation-order")
	sym.Cover("end")
}

func checkGroups(log []icLog, n int, label string) {
	if n == 0 {
		sym.Assert(len(log) == 0, label)
		return
	}
	sym.Assert(len(log)%n == 0, label)
	if len(log)%n != 0 {
		return
	}
	for i, e := range log {
		sym.Assert(e.id == i%n, label)
		if i%n != 0 {
			sym.Assert(e.tok == log[i-i%n].tok, label)
		}
	}
}

// leftmost token index (End.Column) of a node, -1 if unknown.
func leftmostStmt(s ast.Statement) int {
	switch v := s.(type) {
	case *ast.LetStatement:
		return v.Token.End.Column
	case *ast.ReturnStatement:
		return v.Token.End.Column
	case *ast.FunctionDeclaration:
		return v.Token.End.Column
	case *ast.BlockStatement:
		return v.Token.End.Column
	case *ast.IfStatement:
		return v.Token.End.Column
	case *ast.WhileStatement:
		return v.Token.End.Column
	case *ast.ForStatement:
		return v.Token.End.Column
	case *ast.ExpressionStatement:
		if v.Expression == nil {
			return -1
		}
		return leftmostExpr(v.Expression)
	}
	return -1
}

func leftmostExpr(e ast.Expression) int {
	switch v := e.(type) {
	case *ast.Identifier:
		return v.Token.End.Column
	case *ast.IntegerLiteral:
		return v.Token.End.Column
	case *ast.FloatLiteral:
		return v.Token.End.Column
	case *ast.StringLiteral:
		return v.Token.End.Column
	case *ast.MultiStringLiteral:
		return v.Token.End.Column
	case *ast.BooleanLiteral:
		return v.Token.End.Column
	case *ast.NullLiteral:
		return v.Token.End.Column
	case *ast.LetExpression:
		return v.Token.End.Column
	case *ast.UnaryExpression:
		return v.Token.End.Column
	case *ast.GroupedExpression:
		return v.Token.End.Column
	case *ast.FunctionExpression:
		return v.Token.End.Column
	case *ast.ArrayLiteral:
		return v.Token.End.Column
	case *ast.ObjectLiteral:
		return v.Token.End.Column
	case *ast.BinaryExpression:
		return leftmostExpr(v.Left)
	case *ast.PostfixExpression:
		return leftmostExpr(v.Left)
	case *ast.CallExpression:
		return leftmostExpr(v.Function)
	case *ast.MemberExpression:
		return leftmostExpr(v.Object)
	case *ast.AssignmentExpression:
		return leftmostExpr(v.Left)
	case *ast.CompoundAssignmentExpression:
		return leftmostExpr(v.Left)
	}
	return -1
}

// ZZH4bCurrentToken: every statement/expression interceptor sees as current
// token the first token of the construct that next() then returns.
func ZZH4bCurrentToken() {
	_, s := GenProgram()
	sym.Observe("script", s.Types(), s.Newlines())
	bad := false
	n := 0
	pb := parser.NewBuilder(s.LexerBuilder())
	for i := 0; i < 2; i++ {
		pb.UseStatementInterceptor(func(p *parser.Parser, next func() ast.Statement) ast.Statement {
			at := p.CurrentToken.End.Column
			st := next()
			n++
			if !isNilStmt(st) {
				if lm := leftmostStmt(st); lm >= 0 && lm != at {
					bad = true
				}
			}
			return st
		})
		pb.UseExpressionInterceptor(func(p *parser.Parser, next func() ast.Expression) ast.Expression {
			at := p.CurrentToken.End.Column
			ex := next()
			n++
			if !isNilExpr(ex) {
				if lm := leftmostExpr(ex); lm >= 0 && lm != at {
					bad = true
				}
			}
			return ex
		})
	}
	_, err := pb.Build("").ParseProgram()
	sym.Assert(err == nil, "valid-program-accepted")
	sym.Assert(n > 0, "interceptors-ran")
	sym.Assert(!bad, "current-token-is-first-token-of-the-construct")
	sym.Cover("end")
}

// ZZH4cReentrant: an expression interceptor that parses the prefix itself and
// asks the parser to continue the remaining expression obtains the default
// tree, at every nesting depth, also between pass-through interceptors.
func ZZH4cReentrant() {
	s, valid := c04Source()
	sym.Observe("script", s.Types(), s.Newlines())
	s.Rewind()
	base := parseWith(s, parser.NewBuilder(s.LexerBuilder()))
	s.Rewind()
	var elog []icLog
	before := sym.Choose("before", 2)
	after := sym.Choose("after", 2)
	pb := parser.NewBuilder(s.LexerBuilder())
	for i := 0; i < before; i++ {
		pb.UseExpressionInterceptor(passExpr(&elog, i))
	}
	pb.UseExpressionInterceptor(func(p *parser.Parser, next func() ast.Expression) ast.Expression {
		return p.ParseRemainingExpression(p.ParsePrefixExpression())
	})
	for i := 0; i < after; i++ {
		pb.UseExpressionInterceptor(passExpr(&elog, 10+i))
	}
	got := parseWith(s, pb)
	sym.Observe("tree", got.dig, base.dig, len(got.errs), len(base.errs))
	if valid {
		sym.Assert(got.ok, "valid-program-accepted")
	}
	sym.Assert(SameInts(got.dig, base.dig), "re-entrant-interceptor-obtains-the-default-tree")
	sym.Assert(got.ok == base.ok && errorsEqual(got.errs, base.errs), "re-entrant-interceptor-obtains-the-default-errors")
	sym.Cover("end")
}

// ZZH4eRepeatedBuilds: the interceptors of one builder run in installation
// order in every parser it builds (not only the first).
func ZZH4eRepeatedBuilds() {
	_, s := GenProgram()
	sym.Observe("script", s.Types())
	var slog, elog []icLog
	ns := 2 + sym.Choose("nstmt", 2)
	ne := 2 + sym.Choose("nexpr", 2)
	pb := parser.NewBuilder(s.LexerBuilder())
	// installed directly or through plugins, in any interleaving: 0 all direct, 1 all through plugins, 2 / 3
	// alternating (direct first / plugin first), 4 one plugin that registers the first, installs an inner plugin
	// for the middle ones and registers the last itself
	mode := sym.Choose("install", 5)
	viaPlugin := func(i int) bool {
		return mode == 1 || (mode == 2 && i%2 == 1) || (mode == 3 && i%2 == 0)
	}
	if mode == 4 {
		pb.Install(func(b *parser.Builder) {
			b.UseStatementInterceptor(passStmt(&slog, 0))
			b.UseExpressionInterceptor(passExpr(&elog, 0))
			b.Install(func(in *parser.Builder) {
				for i := 1; i < ns-1; i++ {
					in.UseStatementInterceptor(passStmt(&slog, i))
				}
				for i := 1; i < ne-1; i++ {
					in.UseExpressionInterceptor(passExpr(&elog, i))
				}
			})
			b.UseStatementInterceptor(passStmt(&slog, ns-1))
			b.UseExpressionInterceptor(passExpr(&elog, ne-1))
		})
	} else {
		for i := 0; i < ns; i++ {
			ic := passStmt(&slog, i)
			if viaPlugin(i) {
				pb.Install(func(b *parser.Builder) { b.UseStatementInterceptor(ic) })
			} else {
				pb.UseStatementInterceptor(ic)
			}
		}
		for i := 0; i < ne; i++ {
			ic := passExpr(&elog, i)
			if viaPlugin(i) {
				pb.Install(func(b *parser.Builder) { b.UseExpressionInterceptor(ic) })
			} else {
				pb.UseExpressionInterceptor(ic)
			}
		}
	}
	builds := sym.Param("builds", 3)
	var first []int
	for b := 0; b < builds; b++ {
		slog, elog = nil, nil
		s.Rewind()
		p := pb.Build("")
		prog, err := p.ParseProgram()
		sym.Assert(err == nil, "valid-program-accepted")
		d := DigestOf(prog, false)
		if b == 0 {
			first = d.Out
		} else {
			sym.Assert(SameInts(first, d.Out), "every-build-gives-the-same-tree")
		}
		checkGroups(slog, ns, "statement-interceptors-run-once-per-step-in-installation-order")
		checkGroups(elog, ne, "expression-interceptors-run-once-per-step-in-installation-order")
	}
	sym.Cover("end")
}
