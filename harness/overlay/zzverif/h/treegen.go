package h

// treegen: builds ast nodes directly (no parser, no grouping nodes) with
// operands of any precedence, for the printer properties (C03).

import (
	"github.com/xjslang/xjs/ast"
	"github.com/xjslang/xjs/token"
	"github.com/xjslang/xjs/zzverif/sym"
)

type TGen struct {
	Budget int
	Dig    []int
	Funcs  bool
}

func (g *TGen) emit(v ...int) { g.Dig = append(g.Dig, v...) }

func tk(t token.Type, lit string) token.Token { return token.Token{Type: t, Literal: lit} }

var allBinary = []token.Type{token.OR, token.AND, token.EQ, token.NOT_EQ, token.LT, token.GT, token.LTE, token.GTE,
	token.PLUS, token.MINUS, token.MULTIPLY, token.DIVIDE, token.MODULO}

func (g *TGen) ident(name string) *ast.Identifier {
	g.emit(KIdent)
	return &ast.Identifier{Token: tk(token.IDENT, name), Value: name}
}

func (g *TGen) atom() ast.Expression {
	switch sym.Choose("atom", sym.Param("atoms", 2)) {
	case 0:
		return g.ident("a")
	case 1:
		g.emit(KInt)
		return &ast.IntegerLiteral{Token: tk(token.INT, "1")}
	case 2:
		g.emit(KString)
		return &ast.StringLiteral{Token: tk(token.STRING, "s"), Value: "s"}
	case 3:
		g.emit(KBool, int(token.TRUE))
		return &ast.BooleanLiteral{Token: tk(token.TRUE, "true"), Value: true}
	case 4:
		g.emit(KNull)
		return &ast.NullLiteral{Token: tk(token.NULL, "null")}
	case 5:
		g.emit(KFloat)
		return &ast.FloatLiteral{Token: tk(token.FLOAT, "1.5")}
	default:
		g.emit(KRaw)
		return &ast.MultiStringLiteral{Token: tk(token.RAW_STRING, "r"), Value: "r"}
	}
}

const (
	tAtom = iota
	tBinary
	tAssign
	tCompound
	tUnary
	tPostfix
	tCall
	tMember
	tIndex
	tGroup
	tArray
	tObject
	tFunc
	numTreeKinds
)

// Expr builds any expression.
func (g *TGen) Expr() ast.Expression {
	kind := tAtom
	if g.Budget > 0 {
		n := numTreeKinds
		if !g.Funcs {
			n = tFunc
		}
		kind = sym.Choose("expr", n)
	}
	if kind == tAtom {
		return g.atom()
	}
	g.Budget--
	switch kind {
	case tBinary:
		op := allBinary[sym.Choose("binop", len(allBinary))]
		g.emit(KBinary, int(op))
		l := g.Expr()
		r := g.Expr()
		return &ast.BinaryExpression{Token: tk(op, op.String()), Left: l, Operator: op.String(), Right: r}
	case tAssign:
		g.emit(KAssign)
		l := g.Target()
		v := g.Expr()
		return &ast.AssignmentExpression{Token: tk(token.ASSIGN, "="), Left: l, Value: v}
	case tCompound:
		op := []token.Type{token.PLUS_ASSIGN, token.MINUS_ASSIGN}[sym.Choose("compound", 2)]
		g.emit(KCompound, int(op))
		l := g.Target()
		v := g.Expr()
		return &ast.CompoundAssignmentExpression{Token: tk(op, op.String()), Left: l, Operator: op.String()[:1], Value: v}
	case tUnary:
		op := []token.Type{token.NOT, token.MINUS, token.INCREMENT, token.DECREMENT}[sym.Choose("unop", 4)]
		g.emit(KUnary, int(op))
		var r ast.Expression
		if op == token.INCREMENT || op == token.DECREMENT {
			r = g.Target()
		} else {
			r = g.Expr()
		}
		return &ast.UnaryExpression{Token: tk(op, op.String()), Operator: op.String(), Right: r}
	case tPostfix:
		op := []token.Type{token.INCREMENT, token.DECREMENT}[sym.Choose("postop", 2)]
		g.emit(KPostfix, int(op))
		l := g.Target()
		return &ast.PostfixExpression{Token: tk(op, op.String()), Left: l, Operator: op.String()}
	case tCall:
		g.emit(KCall)
		f := g.Callee()
		n := sym.Choose("nargs", 3)
		g.emit(n)
		args := []ast.Expression{}
		for i := 0; i < n; i++ {
			args = append(args, g.Expr())
		}
		return &ast.CallExpression{Token: tk(token.LPAREN, "("), Function: f, Arguments: args}
	case tMember:
		g.emit(KMember)
		o := g.Callee()
		return &ast.MemberExpression{Token: tk(token.DOT, "."), Object: o, Property: g.ident("p")}
	case tIndex:
		g.emit(KIndex)
		o := g.Callee()
		return &ast.MemberExpression{Token: tk(token.LBRACKET, "["), Object: o, Property: g.Expr(), Computed: true}
	case tGroup:
		// explicit grouping node (ignored by the digest)
		return &ast.GroupedExpression{Token: tk(token.LPAREN, "("), Expression: g.Expr(), RParen: tk(token.RPAREN, ")")}
	case tArray:
		g.emit(KArray)
		n := sym.Choose("nelems", 3)
		g.emit(n)
		el := []ast.Expression{}
		for i := 0; i < n; i++ {
			el = append(el, g.Expr())
		}
		return &ast.ArrayLiteral{Token: tk(token.LBRACKET, "["), Elements: el, RBracket: tk(token.RBRACKET, "]")}
	case tObject:
		n := sym.Choose("nprops", 2)
		g.emit(KObject, n)
		props := []ast.ObjectProperty{}
		for i := 0; i < n; i++ {
			k := g.ident("k")
			props = append(props, ast.ObjectProperty{Key: k, Value: g.Expr()})
		}
		return &ast.ObjectLiteral{Token: tk(token.LBRACE, "{"), Properties: props, RBrace: tk(token.RBRACE, "}")}
	case tFunc:
		g.emit(KFuncExpr, 0, 0)
		g.emit(KBlock, 0, KEnd)
		return &ast.FunctionExpression{Token: tk(token.FUNCTION, "function"), Parameters: []*ast.Identifier{},
			Body: &ast.BlockStatement{Token: tk(token.LBRACE, "{"), Statements: []ast.Statement{}, RBrace: tk(token.RBRACE, "}")}}
	}
	return g.atom()
}

// Callee builds a call-level-or-tighter expression (callee / object position).
func (g *TGen) Callee() ast.Expression {
	k := 0
	if g.Budget > 0 {
		k = sym.Choose("callee", 5)
	}
	switch k {
	case 1:
		g.Budget--
		g.emit(KMember)
		o := g.Callee()
		return &ast.MemberExpression{Token: tk(token.DOT, "."), Object: o, Property: g.ident("p")}
	case 2:
		g.Budget--
		g.emit(KIndex)
		o := g.Callee()
		return &ast.MemberExpression{Token: tk(token.LBRACKET, "["), Object: o, Property: g.Expr(), Computed: true}
	case 3:
		g.Budget--
		g.emit(KCall)
		f := g.Callee()
		g.emit(0)
		return &ast.CallExpression{Token: tk(token.LPAREN, "("), Function: f, Arguments: []ast.Expression{}}
	case 4:
		g.Budget--
		return &ast.GroupedExpression{Token: tk(token.LPAREN, "("), Expression: g.Expr(), RParen: tk(token.RPAREN, ")")}
	}
	if sym.Param("calleeleaves", 0) == 1 {
		// atomic expressions that are legal in callee / object position and
		// whose first token is special at the start of a statement
		switch sym.Choose("calleeleaf", 4) {
		case 1:
			g.emit(KObject, 0)
			return &ast.ObjectLiteral{Token: tk(token.LBRACE, "{"), Properties: []ast.ObjectProperty{}, RBrace: tk(token.RBRACE, "}")}
		case 2:
			g.emit(KFuncExpr, 0, 0, KBlock, 0, KEnd)
			return &ast.FunctionExpression{Token: tk(token.FUNCTION, "function"), Parameters: []*ast.Identifier{},
				Body: &ast.BlockStatement{Token: tk(token.LBRACE, "{"), Statements: []ast.Statement{}, RBrace: tk(token.RBRACE, "}")}}
		case 3:
			g.emit(KArray, 0)
			return &ast.ArrayLiteral{Token: tk(token.LBRACKET, "["), Elements: []ast.Expression{}, RBracket: tk(token.RBRACKET, "]")}
		}
	}
	return g.ident("a")
}

// Target builds an assignment target: identifier or member access.
func (g *TGen) Target() ast.Expression {
	k := 0
	if g.Budget > 0 {
		k = sym.Choose("target", 3)
	}
	switch k {
	case 1:
		g.Budget--
		g.emit(KMember)
		o := g.Callee()
		return &ast.MemberExpression{Token: tk(token.DOT, "."), Object: o, Property: g.ident("p")}
	case 2:
		g.Budget--
		g.emit(KIndex)
		o := g.Callee()
		return &ast.MemberExpression{Token: tk(token.LBRACKET, "["), Object: o, Property: g.Expr(), Computed: true}
	}
	return g.ident("a")
}

// Statement wraps an expression: expression statement, let initialiser, or
// return value inside a function declaration.
func (g *TGen) Program() *ast.Program {
	followKind := sym.Param("follow", 0) // 1: a function declaration follows (indented body); 2: a bare block statement follows
	follow := followKind == 1
	if followKind != 0 {
		g.emit(KProgram, 2)
	} else {
		g.emit(KProgram, 1)
	}
	var st ast.Statement
	switch sym.Choose("wrap", 3) {
	case 0:
		g.emit(KExprStmt)
		st = &ast.ExpressionStatement{Expression: g.Expr()}
	case 1:
		g.emit(KLet)
		name := g.ident("v")
		st = &ast.LetStatement{Token: tk(token.LET, "let"), Name: name, Value: g.Expr()}
	case 2:
		g.emit(KFuncDecl)
		name := g.ident("f")
		g.emit(0, KBlock, 1, KReturn)
		ret := &ast.ReturnStatement{Token: tk(token.RETURN, "return"), ReturnValue: g.Expr()}
		g.emit(KEnd)
		st = &ast.FunctionDeclaration{Token: tk(token.FUNCTION, "function"), Name: name, Parameters: []*ast.Identifier{},
			Body: &ast.BlockStatement{Token: tk(token.LBRACE, "{"), Statements: []ast.Statement{ret}, RBrace: tk(token.RBRACE, "}")}}
	}
	stmts := []ast.Statement{st}
	if follow {
		g.emit(KFuncDecl)
		name := g.ident("g")
		g.emit(0, KBlock, 1, KReturn)
		ret := &ast.ReturnStatement{Token: tk(token.RETURN, "return"), ReturnValue: g.ident("a")}
		g.emit(KEnd)
		stmts = append(stmts, &ast.FunctionDeclaration{Token: tk(token.FUNCTION, "function"), Name: name, Parameters: []*ast.Identifier{},
			Body: &ast.BlockStatement{Token: tk(token.LBRACE, "{"), Statements: []ast.Statement{ret}, RBrace: tk(token.RBRACE, "}")}})
	}
	if followKind == 2 {
		g.emit(KBlock, 1, KExprStmt)
		inner := &ast.ExpressionStatement{Expression: g.ident("a")}
		g.emit(KEnd)
		stmts = append(stmts, &ast.BlockStatement{Token: tk(token.LBRACE, "{"), Statements: []ast.Statement{inner}, RBrace: tk(token.RBRACE, "}")})
	}
	g.emit(KEnd)
	return &ast.Program{Statements: stmts}
}
