package h

import (
	"github.com/xjslang/xjs/ast"
	"github.com/xjslang/xjs/lexer"
	"github.com/xjslang/xjs/parser"
	"github.com/xjslang/xjs/zzverif/sym"
)

// GenText generates a program with concrete lexemes (its output is read as
// text) and optional trivia, and parses it with the real parser through the
// token stub.
func GenText(trivia, sites int, symComments bool) (*Gen, *Script, *ast.Program) {
	g := NewGen(sym.Param("budget", 2))
	g.ConcreteOps = true
	g.ConcretePos = sym.Param("concretepos", 1) == 1
	g.Layout = sym.Param("layout", 0) == 1
	g.NoFunc = sym.Param("nofunc", 0) == 1
	g.TriviaLeft = trivia
	g.TriviaSites = sites
	g.TriviaKinds = sym.Param("triviakinds", 3)
	g.SymComments = symComments
	s := g.Program(sym.Param("stmts", 2))
	p := NewParser(s, false, false)
	prog, err := p.ParseProgram()
	sym.Assume(err == nil) // C02 decides acceptance; here only accepted programs matter
	return g, s, prog
}

func reparse(code string) (*ast.Program, *Digest, bool) {
	p := parser.NewBuilder(lexer.NewBuilder()).Build(code)
	prog, err := p.ParseProgram()
	d := DigestOf(prog, true)
	return prog, d, err == nil
}

// stripIndent removes the leading spaces and tabs of every line.
func stripIndent(s string) string {
	out := make([]byte, 0, len(s))
	bol := true
	for i := 0; i < len(s); i++ {
		c := s[i]
		if bol && (c == ' ' || c == '\t') {
			continue
		}
		bol = c == '\n'
		out = append(out, c)
	}
	return string(out)
}

// dropTerminators removes every statement-terminating ';' from the text: all
// ';' tokens (found with the reference scanner R2, so not those inside
// literals or comments) except the two separators of a for header.
func dropTerminators(s string) string {
	toks := RScan(s)
	drop := map[int]bool{}
	for i := 0; i < len(toks); i++ {
		t := toks[i]
		if t.Kind == RIdent && t.Text == "for" && i+1 < len(toks) && toks[i+1].Text == "(" {
			depth := 0
			j := i + 1
			for ; j < len(toks); j++ {
				if toks[j].Kind != RPunct {
					continue
				}
				if toks[j].Text == "(" {
					depth++
				} else if toks[j].Text == ")" {
					depth--
					if depth == 0 {
						break
					}
				}
			}
			i = j
			continue
		}
		if t.Kind == RPunct && t.Text == ";" {
			drop[t.Start] = true
		}
	}
	out := make([]byte, 0, len(s))
	for i := 0; i < len(s); i++ {
		if !drop[i] {
			out = append(out, s[i])
		}
	}
	return string(out)
}

// ZZH6Pretty: for every accepted program and every option combination the
// formatted output parses to the same tree as the compact output, formatting
// is idempotent, indentation options change only leading whitespace and the
// semicolon option only statement-terminating semicolons (C06).
func ZZH6Pretty() {
	g, s, prog := GenText(sym.Param("trivia", 1), 1, false)
	sym.Observe("script", s.Types(), s.Newlines(), g.Decorated)
	compact := newCompiler(false, true, 0).Compile(prog).Code
	_, dc, okc := reparse(compact)
	sym.Observe("compact", compact)
	sym.Assert(okc && SameInts(dc.Out, g.Dig), "compact-output-parses-to-the-same-tree")

	semi := sym.Bool("semi")
	indentChoices := []int{2, -1, 0, 4, 1, 8}
	indent := indentChoices[sym.Choose("indent", sym.Param("indents", 3))]
	pretty := newCompiler(true, semi, indent).Compile(prog).Code
	sym.Observe("pretty", pretty, semi, indent)
	prog2, dp, okp := reparse(pretty)
	sym.Assert(okp, "pretty-output-parses")
	if okc && okp {
		// the two trees also agree on the text of identifiers and literals
		progc, _, _ := reparse(compact)
		lc, lp := &Digest{SkipGroups: true, Lits: true}, &Digest{SkipGroups: true, Lits: true}
		lc.Program(progc)
		lp.Program(prog2)
		sym.Assert(SameInts(lc.Out, lp.Out), "pretty-and-compact-trees-have-the-same-literals")
	}
	sym.Assert(SameInts(dp.Out, g.Dig), "pretty-output-parses-to-the-same-tree-as-compact")
	if okp && !dp.Missing && !dp.NilEntry {
		again := newCompiler(true, semi, indent).Compile(prog2).Code
		sym.Observe("again", again)
		sym.Assert(sym.EqStr(pretty, again), "formatting-twice-is-stable")
	}
	// indentation: only leading whitespace differs from the default layout
	def := newCompiler(true, semi, 2).Compile(prog).Code
	sym.Assert(sym.EqStr(stripIndent(pretty), stripIndent(def)), "indent-option-changes-only-leading-whitespace")
	// semicolons: only statement terminators differ
	on := newCompiler(true, true, indent).Compile(prog).Code
	off := newCompiler(true, false, indent).Compile(prog).Code
	sym.Observe("semi", on, off)
	sym.Assert(sym.EqStr(dropTerminators(on), dropTerminators(off)), "semicolon-option-changes-only-statement-terminators")
	sym.Cover("end")
}
