package h

import (
	"github.com/xjslang/xjs/lexer"
	"github.com/xjslang/xjs/parser"
	"github.com/xjslang/xjs/token"
	"github.com/xjslang/xjs/zzverif/sym"
)

func nonEmpty(cs []string) []string {
	var out []string
	for _, c := range cs {
		if len(c) > 0 {
			out = append(out, c)
		}
	}
	return out
}

// blankLinesBefore: number of blank lines the lexer's trivia encodes in front
// of the first comment (one "" per line break seen in white space).
func hasBlankLine(cs []string) bool {
	n := 0
	for _, c := range cs {
		if len(c) > 0 {
			break
		}
		n++
	}
	return n >= 2
}

func texts(toks []RTok) []string {
	out := make([]string, len(toks))
	for i, t := range toks {
		out[i] = t.Text
	}
	return out
}

// ZZH15Comments: every comment at a statement boundary (before a statement,
// before a closing brace, before the end of input; own-line or trailing)
// appears verbatim, once, in order, in front of the same token in the pretty
// output; blank-line separation is kept; compact output has no comments and
// neither output's code is altered by the comment text (C15).
func ZZH15Comments() {
	g, s, prog := GenText(sym.Param("trivia", 1), 0, true)
	sym.Assume(len(g.Decorated) > 0)
	sym.Observe("script", s.Types(), g.Decorated)
	semi := sym.Bool("semi")
	pretty := newCompiler(true, semi, 2).Compile(prog).Code
	compact := newCompiler(false, true, 0).Compile(prog).Code
	sym.Observe("out", pretty, compact)
	// requesting a source map must not move, drop or duplicate comments
	prettyMap := newCompiler(true, semi, 2).WithSourceMap().Compile(prog).Code
	sym.Assert(sym.EqStr(prettyMap, pretty), "comments-placed-identically-with-a-source-map")

	// the same program without trivia
	bare := &Script{EOF: s.EOF}
	bare.EOF.LeadingComments = nil
	for _, t := range s.Toks {
		t.LeadingComments = nil
		bare.Toks = append(bare.Toks, t)
	}
	pb := NewParser(bare, false, false)
	progB, errB := pb.ParseProgram()
	sym.Assert(errB == nil, "undecorated-program-accepted")
	prettyB := newCompiler(true, semi, 2).Compile(progB).Code
	compactB := newCompiler(false, true, 0).Compile(progB).Code

	// compact: no comment text, identical to the undecorated output
	sym.Assert(sym.EqStr(compact, compactB), "compact-output-unaffected-by-comments")
	for _, t := range RScan(compact) {
		sym.Assert(len(t.Comments) == 0, "compact-output-has-no-comments")
	}

	// pretty: same code tokens as the undecorated output
	out := RScan(pretty)
	outB := RScan(prettyB)
	sym.Assert(len(out) == len(outB), "comments-do-not-alter-the-emitted-code")
	if len(out) == len(outB) {
		for i := range out {
			sym.Assert(sym.EqStr(out[i].Text, outB[i].Text), "comments-do-not-alter-the-emitted-code")
		}
	}
	// pretty: comments in front of the same tokens, verbatim, once, in order
	outNS := dropSemis(out)
	src := sourceNoSemis(s)
	sym.Assert(len(outNS) == len(src), "output-token-sequence-matches-source")
	if len(outNS) != len(src) {
		return
	}
	sibling := map[int]bool{} // first tokens of statements that follow a sibling statement
	for _, i := range g.StmtFirst {
		if i > 0 && i < len(s.Toks) && s.Toks[i-1].Type != token.LBRACE {
			sibling[i] = true
		}
	}
	check := func(want []string, got RTok, where string, blank bool) {
		w := nonEmpty(want)
		sym.Assert(len(got.Comments) == len(w), "comment-kept-once-before-the-same-"+where)
		if len(got.Comments) == len(w) {
			for k := range w {
				sym.Assert(sym.EqStr(got.Comments[k], w[k]), "comment-text-verbatim")
			}
		}
		if blank && hasBlankLine(want) {
			sym.Assert(got.Blank >= 1, "blank-line-separation-kept")
		}
	}
	for j, i := range src {
		where := "statement"
		if s.Toks[i].Type == token.RBRACE {
			where = "closing-brace"
		}
		check(s.Toks[i].LeadingComments, outNS[j], where, sibling[i])
	}
	// comments before the end of input
	check(s.EOF.LeadingComments, out[len(out)-1], "end-of-input", false)
	// no comment anywhere else (e.g. in front of a `;`)
	total := 0
	for _, t := range out {
		total += len(t.Comments)
	}
	want := len(nonEmpty(s.EOF.LeadingComments))
	for _, t := range s.Toks {
		want += len(nonEmpty(t.LeadingComments))
	}
	sym.Assert(total == want, "each-comment-appears-exactly-once")
	sym.Cover("end")
}

// ZZH15Text: the same at text level for the places where the lexer attaches a
// comment: the real lexer, parser and printer run on a source text with one
// `//` comment of 1..2 arbitrary printable bytes (trailing or own-line, before
// a statement, before a closing brace, before the end of the input with and
// without a final line break).
func ZZH15Text() {
	n := 1 + sym.Choose("commentlen", sym.Param("commentlen", 2))
	c := sym.String("comment", n)
	for i := 0; i < n; i++ {
		// printable ASCII or any byte of a multi-byte character
		sym.Assume(sym.And(c[i] >= 0x20, c[i] != 0x7f))
	}
	// last byte visible ASCII (trailing white space, ASCII or Unicode, is trimmed: outside the claim)
	sym.Assume(sym.And(c[n-1] > ' ', c[n-1] <= 0x7e))
	shapes := []string{
		"a;//" + c,
		"a;//" + c + "\n",
		"a;\n//" + c,
		"a;\n//" + c + "\nb;",
		"a; //" + c + "\nb;",
		"{\na;\n//" + c + "\n}",
		"//" + c + "\na;",
		"function f(){\n//" + c + "\nreturn a;\n}",
	}
	k := sym.Choose("shape", len(shapes))
	src := shapes[k]
	p := parser.NewBuilder(lexer.NewBuilder()).Build(src)
	prog, err := p.ParseProgram()
	sym.Observe("src", src, err != nil)
	sym.Assert(err == nil, "commented-program-accepted")
	if err != nil {
		return
	}
	pretty := newCompiler(true, sym.Bool("semi"), 2).Compile(prog).Code
	compact := newCompiler(false, true, 0).Compile(prog).Code
	sym.Observe("out", pretty, compact)
	want := RScan(src)
	got := RScan(pretty)
	// same code tokens (terminators aside), same comments in front of the same token
	w, g := dropSemis(want), dropSemis(got)
	sym.Assert(len(w) == len(g), "pretty-output-has-the-source-tokens")
	total := 0
	for _, t := range got {
		total += len(t.Comments)
	}
	sym.Assert(total == 1, "comment-appears-exactly-once")
	if len(w) == len(g) {
		for i := range w {
			sym.Assert(sym.EqStr(w[i].Text, g[i].Text), "pretty-output-has-the-source-tokens")
			sym.Assert(len(w[i].Comments) == len(g[i].Comments), "comment-kept-before-the-same-token")
			if len(w[i].Comments) == 1 && len(g[i].Comments) == 1 {
				sym.Assert(sym.EqStr(w[i].Comments[0], g[i].Comments[0]), "comment-text-verbatim")
			}
		}
	}
	// the end of input carries its comments too
	we, ge := want[len(want)-1], got[len(got)-1]
	sym.Assert(len(we.Comments) == len(ge.Comments), "comment-kept-before-the-end-of-input")
	if len(we.Comments) == 1 && len(ge.Comments) == 1 {
		sym.Assert(sym.EqStr(we.Comments[0], ge.Comments[0]), "comment-text-verbatim")
	}
	for _, t := range RScan(compact) {
		sym.Assert(len(t.Comments) == 0, "compact-output-has-no-comments")
	}
	sym.Cover("end")
}
