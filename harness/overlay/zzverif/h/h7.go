package h

import (
	"github.com/xjslang/xjs/lexer"
	"github.com/xjslang/xjs/parser"
	"github.com/xjslang/xjs/zzverif/sym"
)

// compileText: real lexer + parser + compiler on a source text.
func compileText(src string, pretty bool) (string, bool) {
	p := parser.NewBuilder(lexer.NewBuilder()).Build(src)
	prog, err := p.ParseProgram()
	if err != nil {
		return "", false
	}
	return newCompiler(pretty, true, 2).Compile(prog).Code, true
}

func sameUnits(a, b []int) bool {
	if len(a) != len(b) {
		return false
	}
	r := true
	for i := range a {
		r = sym.And(r, a[i] == b[i])
	}
	return r
}

// literalWindow: a literal of 2..K+2 arbitrary bytes used as the statement
// `x=<literal>;` (so that a literal that is cut short or runs over shows).
func literalSource(lit string) string { return "x=" + lit + ";" }

// ZZH7Strings: every valid quoted string literal of <= K content bytes denotes
// in the emitted JavaScript the value it denotes in the source (C07).
func ZZH7Strings() {
	K := sym.Param("K", 3)
	n := sym.Choose("len", K+1)
	q := []byte{'"', '\''}[sym.Choose("quote", 2)]
	body := sym.String("s", n)
	ascii := sym.Param("ascii", 1) == 1
	for i := 0; i < n; i++ {
		if ascii {
			sym.Assume(body[i] < 0x80)
		}
	}
	// optional fixed escape prefix so that long escapes fit into the window
	body = []string{"", "\\x", "\\u", "\\u{"}[sym.Param("prefix", 0)] + body
	lit := string([]byte{q}) + body + string([]byte{q})
	// the source literal must be exactly one valid string literal
	sym.Assume(rStringEnd(lit, 0) == len(lit))
	want, ok := RStringValue(body, false)
	sym.Assume(ok)
	pretty := sym.Bool("pretty")
	code, accepted := compileText(literalSource(lit), pretty)
	sym.Observe("lit", lit, code, accepted, pretty)
	sym.Assert(accepted, "valid-string-literal-accepted")
	if !accepted {
		return
	}
	toks := RScan(code)
	// x = <string> ;
	shape := len(toks) == 5 && toks[0].Text == "x" && toks[1].Text == "=" && toks[2].Kind == RString && toks[3].Text == ";"
	sym.Assert(shape, "emitted-text-is-one-string-literal")
	if !shape {
		return
	}
	out := toks[2].Text
	got, ok2 := RStringValue(out[1:len(out)-1], false)
	sym.Assert(ok2, "emitted-string-literal-is-valid")
	if ok2 {
		sym.Assert(sameUnits(got, want), "string-literal-value-preserved")
	}
	sym.Cover("end")
}

// ZZH7Templates: backtick strings keep their (cooked) value.
func ZZH7Templates() {
	K := sym.Param("K", 3)
	n := sym.Choose("len", K+1)
	body := sym.String("s", n)
	for i := 0; i < n; i++ {
		sym.Assume(body[i] < 0x80)
		// ${ starts a substitution: outside the subset
		if i+1 < n {
			sym.Assume(sym.Not(sym.And(body[i] == '$', body[i+1] == '{')))
		}
	}
	lit := "`" + body + "`"
	toks0 := RScan(lit)
	sym.Assume(len(toks0) == 2 && toks0[0].Kind == RTemplate && len(toks0[0].Text) == len(lit))
	want, ok := RStringValue(body, true)
	sym.Assume(ok)
	pretty := sym.Bool("pretty")
	code, accepted := compileText(literalSource(lit), pretty)
	sym.Observe("lit", lit, code, accepted, pretty)
	sym.Assert(accepted, "valid-template-string-accepted")
	if !accepted {
		return
	}
	toks := RScan(code)
	shape := len(toks) == 5 && toks[0].Text == "x" && toks[1].Text == "=" && toks[2].Kind == RTemplate && toks[3].Text == ";"
	sym.Assert(shape, "emitted-text-is-one-template-string")
	if !shape {
		return
	}
	out := toks[2].Text
	got, ok2 := RStringValue(out[1:len(out)-1], true)
	sym.Assert(ok2, "emitted-template-string-is-valid")
	if ok2 {
		sym.Assert(sameUnits(got, want), "template-string-value-preserved")
	}
	sym.Cover("end")
}

// ZZH7Numbers: numeric literals are emitted verbatim (same value) whenever
// the program is accepted, and the listed shapes are accepted.
func ZZH7Numbers() {
	K := sym.Param("K", 4)
	n := 1 + sym.Choose("len", K)
	lit := sym.String("d", n)
	sym.Assume(lit[0] >= '0' && lit[0] <= '9')
	// legacy forms (leading zeros: 010, 007, 089) are not literal forms of the subset: their acceptance is not
	// demanded, but when the transpiler accepts one it must emit it verbatim like every other number
	legacy := n > 1 && sym.Fork(sym.And(lit[0] == '0', rDigitB(lit[1])))
	if legacy {
		for i := 2; i < n; i++ {
			sym.Assume(rDigitB(lit[i]))
		}
	} else {
		sym.Assume(rNumberEnd(lit, 0) == n) // a valid ECMAScript numeric literal spanning all of it
	}
	// forms outside the subset's literal syntax: trailing dot
	sym.Assume(lit[n-1] != '.')
	for i := 0; i+1 < n; i++ {
		// "digits." without fraction digits (1., 2.e3) is not a literal form of the subset
		sym.Assume(sym.Implies(lit[i] == '.', rDigitB(lit[i+1])))
	}
	// exponent of at most two digits (range errors are outside the model)
	for i := 0; i+3 < n; i++ {
		isE := sym.Or(lit[i] == 'e', lit[i] == 'E')
		hexLit := n > 1 && (lit[1] == 'x' || lit[1] == 'X')
		if !hexLit {
			sym.Assume(sym.Not(sym.And(isE, sym.And(rDigitB(lit[i+1]), sym.And(rDigitB(lit[i+2]), rDigitB(lit[i+3]))))))
		}
	}
	pretty := sym.Bool("pretty")
	code, accepted := compileText(literalSource(lit), pretty)
	sym.Observe("lit", lit, code, accepted, pretty)
	if !legacy {
		sym.Assert(accepted, "valid-numeric-literal-accepted")
	}
	if !accepted {
		return
	}
	toks := RScan(code)
	shape := len(toks) == 5 && toks[0].Text == "x" && toks[1].Text == "=" && toks[2].Kind == RNumber && toks[3].Text == ";"
	sym.Assert(shape, "emitted-text-is-one-numeric-literal")
	if shape {
		sym.Assert(sym.EqStr(toks[2].Text, lit), "numeric-literal-emitted-verbatim")
	}
	sym.Cover("end")
}

func rDigitB(c byte) bool { return sym.And(c >= '0', c <= '9') }

// ZZH7Pair: two literals in one program - a quoted string of <= K1 content
// bytes and a backtick string of <= K2 bytes, in either order - keep their
// values in compact and pretty output: what one literal contains (a quote
// character of another style, a backtick, a backslash) must not change how
// the text around the other is treated by the output passes.
func ZZH7Pair() {
	K1 := sym.Param("K1", 2)
	K2 := sym.Param("K2", 2)
	n1 := sym.Choose("len1", K1+1)
	q := []byte{'"', '\''}[sym.Choose("quote", 2)]
	b1 := sym.String("s", n1)
	for i := 0; i < n1; i++ {
		sym.Assume(b1[i] < 0x80)
	}
	lit1 := string([]byte{q}) + b1 + string([]byte{q})
	sym.Assume(rStringEnd(lit1, 0) == len(lit1))
	want1, ok := RStringValue(b1, false)
	sym.Assume(ok)
	n2 := sym.Choose("len2", K2+1)
	b2 := sym.String("t", n2)
	for i := 0; i < n2; i++ {
		sym.Assume(b2[i] < 0x80)
		if i+1 < n2 {
			sym.Assume(sym.Not(sym.And(b2[i] == '$', b2[i+1] == '{')))
		}
	}
	lit2 := "`" + b2 + "`"
	toks0 := RScan(lit2)
	sym.Assume(len(toks0) == 2 && toks0[0].Kind == RTemplate && len(toks0[0].Text) == len(lit2))
	want2, ok2 := RStringValue(b2, true)
	sym.Assume(ok2)
	first := sym.Choose("order", 2) == 0
	src := "x=" + lit1 + ";y=" + lit2 + ";"
	if !first {
		src = "y=" + lit2 + ";x=" + lit1 + ";"
	}
	pretty := sym.Bool("pretty")
	code, accepted := compileText(src, pretty)
	sym.Observe("pair", src, code, accepted, pretty)
	sym.Assert(accepted, "valid-literals-accepted")
	if !accepted {
		return
	}
	toks := RScan(code)
	si, ti := 2, 6
	if !first {
		si, ti = 6, 2
	}
	shape := len(toks) == 9 && toks[1].Text == "=" && toks[3].Text == ";" && toks[5].Text == "=" && toks[7].Text == ";" &&
		toks[si].Kind == RString && toks[ti].Kind == RTemplate
	sym.Assert(shape, "emitted-text-is-two-literal-statements")
	if !shape {
		return
	}
	o1 := toks[si].Text
	got1, g1 := RStringValue(o1[1:len(o1)-1], false)
	sym.Assert(g1, "emitted-string-literal-is-valid")
	if g1 {
		sym.Assert(sameUnits(got1, want1), "string-literal-value-preserved")
	}
	o2 := toks[ti].Text
	got2, g2 := RStringValue(o2[1:len(o2)-1], true)
	sym.Assert(g2, "emitted-template-string-is-valid")
	if g2 {
		sym.Assert(sameUnits(got2, want2), "template-string-value-preserved")
	}
	sym.Cover("end")
}
