package h

import (
	"github.com/xjslang/xjs/ast"
	"github.com/xjslang/xjs/lexer"
	"github.com/xjslang/xjs/parser"
	"github.com/xjslang/xjs/token"
	"github.com/xjslang/xjs/zzverif/sym"
)

// SGen builds statement trees directly from the ast constructors (no parser):
// every nesting of if / if-else / while / for / block / function declaration
// with at most Budget compound statements; expression statements, let and
// return are free leaves. Only trees the ECMAScript grammar can denote are
// built: lexical and function declarations stand in statement lists only
// (never as the single-statement body of if / while / for), return only
// inside a function.
type SGen struct {
	Budget int
	InFunc bool
}

func sIdent(n string) *ast.Identifier { return &ast.Identifier{Token: tk(token.IDENT, n), Value: n} }

func (g *SGen) leafExpr() ast.Expression {
	switch sym.Choose("sleaf", sym.Param("sleaves", 2)) {
	case 1:
		return &ast.AssignmentExpression{Token: tk(token.ASSIGN, "="), Left: sIdent("a"), Value: sIdent("b")}
	case 2:
		return &ast.CallExpression{Token: tk(token.LPAREN, "("), Function: sIdent("f"), Arguments: []ast.Expression{}}
	case 3:
		return &ast.PostfixExpression{Token: tk(token.INCREMENT, "++"), Left: sIdent("a"), Operator: "++"}
	}
	return sIdent("a")
}

func (g *SGen) block(max int) *ast.BlockStatement {
	n := sym.Choose("nblock", max+1)
	st := []ast.Statement{}
	for i := 0; i < n; i++ {
		st = append(st, g.Stmt(false))
	}
	return &ast.BlockStatement{Token: tk(token.LBRACE, "{"), Statements: st, RBrace: tk(token.RBRACE, "}")}
}

const (
	tsExpr = iota
	tsIf
	tsIfElse
	tsWhile
	tsFor
	tsBlock
	tsLet
	tsReturn
	tsFunc
	numTStmtKinds
)

// Stmt builds a statement; single: the position is the single-statement body
// of if / while / for (declarations excluded).
func (g *SGen) Stmt(single bool) ast.Statement {
	mask := sym.Param("sstmtmask", (1<<numTStmtKinds)-1)
	var kinds []int
	for k := 0; k < numTStmtKinds; k++ {
		compound := k == tsIf || k == tsIfElse || k == tsWhile || k == tsFor || k == tsBlock || k == tsFunc
		switch {
		case k != tsExpr && mask&(1<<uint(k)) == 0:
		case compound && g.Budget == 0:
		case single && (k == tsLet || k == tsFunc):
		case k == tsReturn && !g.InFunc:
		default:
			kinds = append(kinds, k)
		}
	}
	k := kinds[sym.Choose("skind", len(kinds))]
	if k == tsIf || k == tsIfElse || k == tsWhile || k == tsFor || k == tsBlock || k == tsFunc {
		g.Budget--
	}
	switch k {
	case tsIf, tsIfElse:
		s := &ast.IfStatement{Token: tk(token.IF, "if"), Condition: sIdent("c"), ThenBranch: g.Stmt(true)}
		if k == tsIfElse {
			s.ElseBranch = g.Stmt(true)
		}
		return s
	case tsWhile:
		return &ast.WhileStatement{Token: tk(token.WHILE, "while"), Condition: sIdent("c"), Body: g.Stmt(true)}
	case tsFor:
		s := &ast.ForStatement{Token: tk(token.FOR, "for")}
		switch sym.Choose("forinit", 3) {
		case 1:
			s.Init = &ast.LetExpression{Token: tk(token.LET, "let"), Name: sIdent("i"), Value: sIdent("a")}
		case 2:
			s.Init = &ast.AssignmentExpression{Token: tk(token.ASSIGN, "="), Left: sIdent("i"), Value: sIdent("a")}
		}
		if sym.Choose("forcond", 2) == 1 {
			s.Condition = sIdent("c")
		}
		if sym.Choose("forupd", 2) == 1 {
			s.Update = &ast.PostfixExpression{Token: tk(token.INCREMENT, "++"), Left: sIdent("i"), Operator: "++"}
		}
		s.Body = g.Stmt(true)
		return s
	case tsBlock:
		return g.block(sym.Param("maxblock", 2))
	case tsLet:
		s := &ast.LetStatement{Token: tk(token.LET, "let"), Name: sIdent("v")}
		if sym.Choose("letinit", 2) == 1 {
			s.Value = g.leafExpr()
		}
		return s
	case tsReturn:
		s := &ast.ReturnStatement{Token: tk(token.RETURN, "return")}
		if sym.Choose("retval", 2) == 1 {
			s.ReturnValue = g.leafExpr()
		}
		return s
	case tsFunc:
		was := g.InFunc
		g.InFunc = true
		body := g.block(sym.Param("maxblock", 2))
		g.InFunc = was
		return &ast.FunctionDeclaration{Token: tk(token.FUNCTION, "function"), Name: sIdent("f"), Parameters: []*ast.Identifier{}, Body: body}
	}
	return &ast.ExpressionStatement{Expression: g.leafExpr()}
}

// ZZH3Statements: printing any statement tree assembled from the core
// statement nodes (C03: "assembled programmatically") and parsing the text
// gives back the same tree - in particular an `else` stays with the `if` it
// was built into - and compiling the re-parsed tree is a fixed point.
func ZZH3Statements() {
	g := &SGen{Budget: sym.Param("sbudget", 2)}
	n := 1 + sym.Choose("nstmts", sym.Param("stmts", 1))
	stmts := []ast.Statement{}
	for i := 0; i < n; i++ {
		stmts = append(stmts, g.Stmt(false))
	}
	prog := &ast.Program{Statements: stmts}
	// the tree the text must denote: JavaScript can only write an if-else whose
	// then-branch ends with an else-less if by putting that branch in a block
	// (the statement-level counterpart of a grouping node)
	norm := &ast.Program{}
	for _, st := range stmts {
		norm.Statements = append(norm.Statements, protectElse(st))
	}
	want := DigestOf(norm, true)
	pretty := sym.Bool("pretty")
	semi := sym.Or(sym.Bool("semi"), !pretty)
	code := newCompiler(pretty, semi, 2).Compile(prog).Code
	sym.Observe("code", code, pretty, semi)
	p := parser.NewBuilder(lexer.NewBuilder()).Build(code)
	prog2, err := p.ParseProgram()
	d := DigestOf(prog2, true)
	sym.Observe("tree", d.Out, want.Out, len(p.Errors()))
	sym.Assert(err == nil, "printed-statements-parse")
	sym.Assert(SameInts(d.Out, want.Out), "printed-statements-parse-back-to-the-same-tree")
	if err == nil && !d.Missing && !d.NilEntry {
		code2 := newCompiler(pretty, semi, 2).Compile(prog2).Code
		sym.Observe("again", code2)
		sym.Assert(sym.EqStr(code, code2), "compiling-the-reparsed-statements-is-a-fixed-point")
	}
	sym.Cover("end")
}

// openIf: the last nested statement is an if without else (reference
// definition of the dangling-else hazard, independent of the printer).
func openIf(s ast.Statement) bool {
	switch v := s.(type) {
	case *ast.IfStatement:
		return v.ElseBranch == nil || openIf(v.ElseBranch)
	case *ast.WhileStatement:
		return openIf(v.Body)
	case *ast.ForStatement:
		return openIf(v.Body)
	}
	return false
}

func protectElse(s ast.Statement) ast.Statement {
	switch v := s.(type) {
	case *ast.IfStatement:
		n := &ast.IfStatement{Token: v.Token, Condition: v.Condition, ThenBranch: protectElse(v.ThenBranch)}
		if v.ElseBranch != nil {
			n.ElseBranch = protectElse(v.ElseBranch)
			if openIf(v.ThenBranch) {
				n.ThenBranch = &ast.BlockStatement{Statements: []ast.Statement{n.ThenBranch}}
			}
		}
		return n
	case *ast.WhileStatement:
		return &ast.WhileStatement{Token: v.Token, Condition: v.Condition, Body: protectElse(v.Body)}
	case *ast.ForStatement:
		return &ast.ForStatement{Token: v.Token, Init: v.Init, Condition: v.Condition, Update: v.Update, Body: protectElse(v.Body)}
	case *ast.BlockStatement:
		n := &ast.BlockStatement{Token: v.Token, RBrace: v.RBrace, Statements: []ast.Statement{}}
		for _, st := range v.Statements {
			n.Statements = append(n.Statements, protectElse(st))
		}
		return n
	case *ast.FunctionDeclaration:
		return &ast.FunctionDeclaration{Token: v.Token, Name: v.Name, Parameters: v.Parameters, Body: protectElse(v.Body).(*ast.BlockStatement)}
	}
	return s
}
