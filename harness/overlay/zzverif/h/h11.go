package h

import (
	"github.com/xjslang/xjs/ast"
	"github.com/xjslang/xjs/compiler"
	"github.com/xjslang/xjs/lexer"
	"github.com/xjslang/xjs/parser"
	"github.com/xjslang/xjs/token"
	"github.com/xjslang/xjs/zzverif/sym"
)

func symAnd(a, b bool) bool { return sym.And(a, b) }

func posEq(a, b token.Position) bool {
	return sym.And(a.Line == b.Line, a.Column == b.Column)
}

// rangeOfSomeToken: the error range equals (Start,End) of one scripted token.
func rangeOfSomeToken(s *Script, r parser.Range) bool {
	ok := sym.And(posEq(r.Start, s.EOF.Start), posEq(r.End, s.EOF.End))
	for _, t := range s.Toks {
		ok = sym.Or(ok, sym.And(posEq(r.Start, t.Start), posEq(r.End, t.End)))
	}
	return ok
}

func compileAll(prog *ast.Program) {
	// compact, pretty x semicolons, with and without source map: must not panic
	compiler.New().Compile(prog)
	compiler.New().WithSourceMap().Compile(prog)
	semi := sym.Bool("pretty.semi")
	compiler.New().WithPrettyPrint(compiler.WithSemi(semi)).Compile(prog)
	compiler.New().WithPrettyPrint(compiler.WithSemi(semi), compiler.WithTabs()).WithSourceMap().Compile(prog)
}

// ZZH11Total: parsing any token buffer of <= T tokens in any mode terminates
// (instruction budget = unwinding assertion), does not panic and obeys the
// error contract (C11).
// prelude: an earlier, differently configured job in the same process (a
// plugin parser with operators registered on built-in and dynamic tokens).
func prelude() {
	lb := lexer.NewBuilder()
	dyn := lb.RegisterTokenType("dyn")
	pb := parser.NewBuilder(lb)
	pb.RegisterPostfixOperator(token.NOT, mkPostfix)
	pb.RegisterInfixOperator(token.COLON, parser.SUM, mkBinary)
	pb.RegisterInfixOperator(dyn, parser.PRODUCT, mkBinary)
	pb.RegisterPrefixOperator(token.MULTIPLY, mkPrefix)
	pb.WithTolerantMode(true).WithSmartSemicolon(true)
	pb.Build("a ! : b").ParseProgram()
}

func ZZH11Total() {
	if sym.Param("prelude", 0) == 1 {
		prelude()
	}
	T := sym.Param("T", 3)
	n := sym.Choose("ntokens", T+1)
	s := ContextScript(n)
	tolerant, smart := sym.Bool("tolerant"), sym.Bool("smart")
	sym.Observe("script", s.Types(), s.Newlines(), tolerant, smart)
	p := NewParser(s, tolerant, smart)
	prog, err := p.ParseProgram()
	errs := p.Errors()
	sym.Assert(prog != nil, "program-returned")
	sym.Assert((err != nil) == (len(errs) > 0), "error-iff-error-list-nonempty")
	d := DigestOf(prog, false)
	sym.Observe("tree", d.Out, len(errs))
	sym.Assert(!d.NilEntry, "no-nil-entry-in-statement-lists")
	for _, e := range errs {
		sym.Assert(rangeOfSomeToken(s, e.Range), "error-range-is-a-token-range")
	}
	if len(errs) == 0 {
		sym.Assert(!d.Missing, "mandatory-children-present-when-no-error")
		if !d.Missing {
			compileAll(prog)
		}
	}
	sym.Cover("end")
}

// ZZH16bFinal: after parsing any token buffer, in any mode, the context is
// back at top level (C16, final-state clause).
func ZZH16bFinal() {
	T := sym.Param("T", 3)
	n := sym.Choose("ntokens", T+1)
	s := ContextScript(n)
	tolerant, smart := sym.Bool("tolerant"), sym.Bool("smart")
	sym.Observe("script", s.Types(), s.Newlines(), tolerant, smart)
	p := NewParser(s, tolerant, smart)
	sym.Assert(p.CurrentContext() == parser.GlobalContext, "context-global-before-parse")
	p.ParseProgram()
	sym.Observe("final", int(p.CurrentContext()), p.IsInFunction(), parser.ZZContextDepth(p))
	sym.Assert(p.CurrentContext() == parser.GlobalContext, "context-global-after-parse")
	sym.Assert(!p.IsInFunction(), "not-in-function-after-parse")
	sym.Assert(parser.ZZContextDepth(p) == 1, "context-stack-balanced")
	sym.Cover("end")
}

func errorsEqual(a, b []parser.ParserError) bool {
	if len(a) != len(b) {
		return false
	}
	r := true
	for i := range a {
		r = sym.And(r, sym.And(posEq(a[i].Range.Start, b[i].Range.Start), posEq(a[i].Range.End, b[i].Range.End)))
		r = sym.And(r, sym.EqStr(a[i].Message, b[i].Message))
	}
	return r
}

// ZZH13aTolerant: on every buffer strict mode accepts, tolerant mode returns
// the identical tree and no errors (C13, first clause).
func ZZH13aTolerant() {
	T := sym.Param("T", 3)
	n := sym.Choose("ntokens", T+1)
	s := ContextScript(n)
	smart := sym.Bool("smart")
	sym.Observe("script", s.Types(), s.Newlines(), smart)
	ps := NewParser(s, false, smart)
	progS, _ := ps.ParseProgram()
	if len(ps.Errors()) != 0 {
		sym.Cover("end")
		return
	}
	pt := NewParser(s, true, smart)
	progT, errT := pt.ParseProgram()
	ds, dt := DigestOf(progS, false), DigestOf(progT, false)
	sym.Observe("trees", ds.Out, dt.Out, len(pt.Errors()))
	sym.Assert(errT == nil && len(pt.Errors()) == 0, "tolerant-accepts-what-strict-accepts")
	sym.Assert(SameInts(ds.Out, dt.Out), "tolerant-tree-equals-strict-tree")
	sym.Cover("end")
	sym.Cover("strict-accepted")
}

// ZZH13cSmart: without a line-initial ( or [ the smart-semicolon mode
// changes nothing: same tree, same errors (C13, third clause, first half).
func ZZH13cSmart() {
	T := sym.Param("T", 3)
	n := sym.Choose("ntokens", T+1)
	s := ContextScript(n)
	tolerant := sym.Bool("tolerant")
	for _, t := range s.Toks {
		sym.Assume(sym.Not(sym.And(t.AfterNewline, sym.Or(t.Type == token.LPAREN, t.Type == token.LBRACKET))))
	}
	sym.Observe("script", s.Types(), s.Newlines(), tolerant)
	pd := NewParser(s, tolerant, false)
	progD, _ := pd.ParseProgram()
	px := NewParser(s, tolerant, true)
	progX, _ := px.ParseProgram()
	dd, dx := DigestOf(progD, false), DigestOf(progX, false)
	sym.Observe("trees", dd.Out, dx.Out, len(pd.Errors()), len(px.Errors()))
	sym.Assert(SameInts(dd.Out, dx.Out), "smart-tree-equals-default-tree")
	sym.Assert(errorsEqual(pd.Errors(), px.Errors()), "smart-errors-equal-default-errors")
	sym.Cover("end")
}

// ZZH13bTolerantExtras: tolerant mode accepts, without error and keeping every
// statement, statements fused on one line without a separator and blocks
// left open at the end of the input (C13, second clause).
func ZZH13bTolerantExtras() {
	g := NewGen(sym.Param("budget", 2))
	g.FuseSeps = true
	s := g.Program(sym.Param("stmts", 2))
	// drop a run of block-closing braces at the very end
	k := 0
	for k < len(s.Toks) && isBlockEnd(g, len(s.Toks)-1-k) {
		k++
	}
	drop := 0
	if k > 0 {
		drop = sym.Choose("dropbraces", k+1)
	}
	sym.Assume(drop > 0 || len(g.Fused) > 0)
	s.Toks = s.Toks[:len(s.Toks)-drop]
	sym.Observe("script", s.Types(), s.Newlines(), drop, g.Fused)
	pt := NewParser(s, true, false)
	prog, err := pt.ParseProgram()
	d := DigestOf(prog, true)
	sym.Observe("tree", d.Out, g.Dig, len(pt.Errors()))
	sym.Assert(err == nil && len(pt.Errors()) == 0, "tolerant-accepts-fused-statements-and-open-blocks")
	sym.Assert(SameInts(d.Out, g.Dig), "tolerant-keeps-every-statement")
	sym.Cover("end")
}

func isBlockEnd(g *Gen, idx int) bool {
	for _, b := range g.BlockEnds {
		if b == idx {
			return true
		}
	}
	return false
}

// ZZH13dSmartBreaks: in smart-semicolon mode a ( or [ at the start of a line
// begins a new statement exactly as if a semicolon preceded it (C13, third
// clause, second half): programs separated by line breaks only.
func ZZH13dSmartBreaks() {
	g := NewGen(sym.Param("budget", 2))
	g.Smart = true
	s := g.Program(sym.Param("stmts", 2))
	tolerant := sym.Bool("tolerant")
	sym.Observe("script", s.Types(), s.Newlines(), tolerant)
	p := NewParser(s, tolerant, true)
	prog, err := p.ParseProgram()
	d := DigestOf(prog, true)
	sym.Observe("tree", d.Out, g.Dig, len(p.Errors()))
	sym.Assert(err == nil && len(p.Errors()) == 0, "smart-accepts-line-break-separated-program")
	sym.Assert(SameInts(d.Out, g.Dig), "smart-tree-as-if-semicolon-inserted")
	sym.Cover("end")
}

// ZZH11Literals: the error contract on numeric tokens whose text the parser
// must validate (out-of-range, truncated prefix forms, bad exponents), in
// several expression contexts and all modes.
func ZZH11Literals() {
	lits := []struct {
		t   token.Type
		lit string
	}{
		{token.INT, "99999999999999999999"}, {token.INT, "0x"}, {token.INT, "0b"}, {token.INT, "08"},
		{token.INT, "0xFFFFFFFFFFFFFFFFFF"}, {token.FLOAT, "1e999"}, {token.FLOAT, "1e"}, {token.FLOAT, "1.5e+"},
		{token.INT, "9223372036854775807"}, {token.FLOAT, "1e308"},
	}
	l := lits[sym.Choose("literal", len(lits))]
	shapes := [][]token.Type{
		{token.INT},
		{token.IDENT, token.LPAREN, token.INT, token.RPAREN},
		{token.IDENT, token.PLUS, token.INT},
		{token.LET, token.IDENT, token.ASSIGN, token.INT, token.SEMICOLON},
		{token.IDENT, token.ASSIGN, token.LBRACKET, token.INT, token.COMMA, token.IDENT, token.RBRACKET},
		{token.IF, token.LPAREN, token.INT, token.RPAREN, token.IDENT},
		{token.MINUS, token.INT},
		{token.IDENT, token.ASSIGN, token.LBRACE, token.IDENT, token.COLON, token.INT, token.RBRACE},
	}
	sh := shapes[sym.Choose("shape", len(shapes))]
	s := &Script{}
	for _, t := range sh {
		if t == token.INT {
			s.Toks = append(s.Toks, symTok(l.t, l.lit))
		} else {
			s.Toks = append(s.Toks, symTok(t, Lexeme(t)))
		}
	}
	s.EOF = symTok(token.EOF, "")
	tolerant, smart := sym.Bool("tolerant"), sym.Bool("smart")
	sym.Observe("script", s.Types(), l.lit, tolerant, smart)
	p := NewParser(s, tolerant, smart)
	prog, err := p.ParseProgram()
	errs := p.Errors()
	sym.Assert((err != nil) == (len(errs) > 0), "error-iff-error-list-nonempty")
	d := DigestOf(prog, false)
	sym.Assert(!d.NilEntry, "no-nil-entry-in-statement-lists")
	for _, e := range errs {
		sym.Assert(rangeOfSomeToken(s, e.Range), "error-range-is-a-token-range")
	}
	if len(errs) == 0 {
		sym.Assert(!d.Missing, "mandatory-children-present-when-no-error")
		if !d.Missing {
			compileAll(prog)
		}
	}
	sym.Cover("end")
}

// ZZH11Text: the same contract at text level: a short context followed by
// <= K arbitrary bytes is read by the real lexer and parser in any mode; no
// panic, error value iff error list non-empty, no nil entries, every error
// range is the range of a token the lexer produces for this text, and an
// error-free result compiles in every configuration (C11).
func ZZH11Text() {
	K := sym.Param("K", 3)
	prefixes := []string{"", "x=", "f(a,", "{a\n", "x=\"", "x='\\", "x=`"} // the last three: inside a literal / an escape
	pre := prefixes[sym.Choose("prefix", len(prefixes))]
	n := sym.Choose("len", K+1)
	src := pre + sym.String("s", n)
	tolerant, smart := sym.Bool("tolerant"), sym.Bool("smart")
	pb := parser.NewBuilder(lexer.NewBuilder())
	if tolerant {
		pb.WithTolerantMode(true)
	}
	if smart {
		pb.WithSmartSemicolon(true)
	}
	p := pb.Build(src)
	prog, err := p.ParseProgram()
	errs := p.Errors()
	sym.Observe("src", src, tolerant, smart, len(errs))
	sym.Assert(prog != nil, "program-returned")
	sym.Assert((err != nil) == (len(errs) > 0), "error-iff-error-list-nonempty")
	d := DigestOf(prog, false)
	sym.Assert(!d.NilEntry, "no-nil-entry-in-statement-lists")
	if len(errs) > 0 {
		// the tokens of this text
		var toks []token.Token
		lx := lexer.NewBuilder().Build(src)
		for i := 0; i < len(src)+2; i++ {
			t := lx.NextToken()
			toks = append(toks, t)
			if t.Type == token.EOF {
				break
			}
		}
		for _, e := range errs {
			ok := false
			for _, t := range toks {
				ok = sym.Or(ok, sym.And(posEq(e.Range.Start, t.Start), posEq(e.Range.End, t.End)))
			}
			sym.Assert(ok, "error-range-is-a-token-range")
		}
	} else {
		sym.Assert(!d.Missing, "mandatory-children-present-when-no-error")
		if !d.Missing {
			compileAll(prog)
		}
	}
	sym.Cover("end")
}
