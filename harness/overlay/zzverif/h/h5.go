package h

import (
	"github.com/xjslang/xjs/ast"
	"github.com/xjslang/xjs/lexer"
	"github.com/xjslang/xjs/parser"
	"github.com/xjslang/xjs/token"
	"github.com/xjslang/xjs/zzverif/sym"
)

// ---------------------------------------------------------------- R8: reference precedence climbing

// refOp is one operator occurrence of a flat expression `x0 o1 x1 o2 x2 ...`.
type refOp struct {
	typ     token.Type // token type (possibly symbolic)
	prec    int        // binding power (possibly symbolic)
	postfix bool       // suffix operator: no right operand
}

type refNode struct {
	kind        int // KIdent, KBinary, KUnary, KPostfix
	typ         token.Type
	left, right *refNode
}

type refParser struct {
	ops []refOp
	i   int // next operator
}

// parse implements left-associative precedence climbing: consume operators
// whose binding power is >= min; the right operand of an operator of power p
// is parsed with min = p+1.
func (r *refParser) parse(min int) *refNode {
	left := &refNode{kind: KIdent}
	for r.i < len(r.ops) && sym.Fork(r.ops[r.i].prec >= min) {
		op := r.ops[r.i]
		r.i++
		if op.postfix {
			left = &refNode{kind: KPostfix, typ: op.typ, left: left}
			continue
		}
		right := r.parse(op.prec + 1)
		left = &refNode{kind: KBinary, typ: op.typ, left: left, right: right}
	}
	return left
}

func (n *refNode) digest(out []int) []int {
	switch n.kind {
	case KIdent:
		return append(out, KIdent)
	case KBinary:
		out = append(out, KBinary, int(n.typ))
		out = n.left.digest(out)
		return n.right.digest(out)
	case KUnary:
		out = append(out, KUnary, int(n.typ))
		return n.right.digest(out)
	case KPostfix:
		out = append(out, KPostfix, int(n.typ))
		return n.left.digest(out)
	}
	return out
}

// esBinaryPrec is the ECMAScript level of a (symbolic) built-in binary operator.
func esBinaryPrec(t token.Type) int {
	p := 0
	for lv, class := range binaryClasses {
		for _, c := range class {
			p = sym.Ite(t == c, lv, p)
		}
	}
	return p
}

func anyBinaryOp(name string) token.Type {
	v := sym.Int(name)
	ok := false
	for _, class := range binaryClasses {
		for _, c := range class {
			ok = sym.Or(ok, v == int(c))
		}
	}
	sym.Assume(ok)
	return token.Type(v)
}

func mkBinary(tok token.Token, left ast.Expression, right func() ast.Expression) ast.Expression {
	return &ast.BinaryExpression{Token: tok, Left: left, Operator: "^", Right: right()}
}
func mkPrefix(tok token.Token, right func() ast.Expression) ast.Expression {
	return &ast.UnaryExpression{Token: tok, Operator: "~", Right: right()}
}
func mkPostfix(tok token.Token, left ast.Expression) ast.Expression {
	return &ast.PostfixExpression{Token: tok, Left: left, Operator: "!"}
}

// ZZH5aGrouping: registered infix operators at any level 2..13 group against
// every built-in binary operator and against each other like left-associative
// operators of that level; registered postfix operators bind like call-level
// suffixes; a registered prefix operator binds like the built-in unary ones.
func ZZH5aGrouping() {
	nops := 2 + sym.Choose("nops", sym.Param("ops", 3)-1) // operators in the flat expression
	if sym.Param("prelude", 0) == 1 {
		// an unrelated builder used earlier in the same process: its dynamic ids
		// coincide with ours (every lexer builder counts from 1000), its levels do not
		lb0 := lexer.NewBuilder()
		o1, o2 := lb0.RegisterTokenType("other1"), lb0.RegisterTokenType("other2")
		pb0 := parser.NewBuilder(lb0)
		lv := sym.Int("otherlevel")
		sym.Assume(sym.And(lv >= 2, lv <= 13))
		pb0.RegisterInfixOperator(o1, lv, mkBinary)
		pb0.RegisterInfixOperator(o2, 14-lv, mkBinary)
		pb0.RegisterPostfixOperator(lb0.RegisterTokenType("other3"), mkPostfix)
		pb0.Build("")
	}
	lb := lexer.NewBuilder()
	c1 := lb.RegisterTokenType("c1")
	c2 := lb.RegisterTokenType("c2")
	post := lb.RegisterTokenType("post")
	pre := lb.RegisterTokenType("pre")
	l1, l2 := sym.Int("level1"), sym.Int("level2")
	sym.Assume(sym.And(sym.And(l1 >= 2, l1 <= 13), sym.And(l2 >= 2, l2 <= 13)))

	// flat expression: [pre] a o1 a o2 a ...
	usePre := sym.Choose("prefix", 2) == 1
	s := &Script{}
	if usePre {
		s.Toks = append(s.Toks, symTok(pre, "~"))
	}
	s.Toks = append(s.Toks, symTok(token.IDENT, "a"))
	var ops []refOp
	for i := 0; i < nops; i++ {
		var op refOp
		switch sym.Choose("opkind", 4) {
		case 0:
			t := anyBinaryOp("builtin")
			op = refOp{typ: t, prec: esBinaryPrec(t)}
		case 1:
			op = refOp{typ: c1, prec: l1}
		case 2:
			op = refOp{typ: c2, prec: l2}
		case 3:
			op = refOp{typ: post, prec: lvCall, postfix: true}
		}
		ops = append(ops, op)
		s.Toks = append(s.Toks, symTok(op.typ, "op"))
		if !op.postfix {
			s.Toks = append(s.Toks, symTok(token.IDENT, "a"))
		}
	}
	s.EOF = symTok(token.EOF, "")
	sym.Observe("script", s.Types(), l1, l2)

	// reference tree
	rp := &refParser{ops: ops}
	var want *refNode
	if usePre {
		operand := rp.parse(lvUnary + 1) // what binds tighter than unary stays inside
		want = &refNode{kind: KUnary, typ: pre, right: operand}
		// the outer climb (min = lowest) continues with the prefixed node as its
		// left operand: every remaining operator is consumed in turn
		for rp.i < len(rp.ops) {
			op := rp.ops[rp.i]
			rp.i++
			if op.postfix {
				want = &refNode{kind: KPostfix, typ: op.typ, left: want}
				continue
			}
			right := rp.parse(op.prec + 1)
			want = &refNode{kind: KBinary, typ: op.typ, left: want, right: right}
		}
	} else {
		want = rp.parse(1)
	}
	wantDig := want.digest([]int{KProgram, 1, KExprStmt})
	wantDig = append(wantDig, KEnd)

	pb := parser.NewBuilder(lb.UseTokenInterceptor(s.Interceptor()))
	sym.Assert(pb.RegisterInfixOperator(c1, l1, mkBinary) == nil, "register-infix-1")
	sym.Assert(pb.RegisterInfixOperator(c2, l2, mkBinary) == nil, "register-infix-2")
	sym.Assert(pb.RegisterPostfixOperator(post, mkPostfix) == nil, "register-postfix")
	sym.Assert(pb.RegisterPrefixOperator(pre, mkPrefix) == nil, "register-prefix")
	p := pb.Build("")
	prog, err := p.ParseProgram()
	d := DigestOf(prog, false)
	sym.Observe("tree", d.Out, wantDig, len(p.Errors()))
	sym.Assert(err == nil, "expression-with-registered-operators-accepted")
	sym.Assert(SameInts(d.Out, wantDig), "registered-operators-group-by-level")
	sym.Cover("end")
}

// ZZH5bTokenTypes: RegisterTokenType gives one stable id per name, distinct
// across names and from every built-in type.
func ZZH5bTokenTypes() {
	k := sym.Param("regs", 4)
	lb := lexer.NewBuilder()
	var names []string
	var ids []token.Type
	for i := 0; i < k; i++ {
		name := sym.String("name", 1+sym.Choose("namelen", 2))
		id := lb.RegisterTokenType(name)
		sym.Observe("reg", name, int(id))
		sym.Assert(id >= token.DYNAMIC_TOKENS_START, "dynamic-id-at-least-1000")
		sym.Assert(int(id) >= NumTokenTypes, "dynamic-id-not-a-built-in")
		for j := range names {
			if len(names[j]) == len(name) {
				same := sym.EqStr(names[j], name)
				sym.Assert(same == (ids[j] == id), "same-name-same-id-distinct-name-distinct-id")
			} else {
				sym.Assert(ids[j] != id, "distinct-name-distinct-id")
			}
		}
		names = append(names, name)
		ids = append(ids, id)
	}
	// asking again returns the same ids
	for j := range names {
		sym.Assert(lb.RegisterTokenType(names[j]) == ids[j], "id-stable")
	}
	sym.Cover("end")
}

// ZZH5cDuplicates: registering an operator for a token that already has that
// role is refused and leaves the builder unchanged; otherwise it is accepted.
func ZZH5cDuplicates() {
	k := sym.Param("regs", 3)
	lb := lexer.NewBuilder()
	pb := parser.NewBuilder(lb)
	fresh := parser.NewBuilder(lexer.NewBuilder()).Build("")
	type reg struct {
		role int
		t    token.Type
	}
	var done []reg
	for i := 0; i < k; i++ {
		role := sym.Choose("role", 3)
		tv := sym.Int("type")
		sym.Assume(sym.Or(sym.And(tv >= 0, tv < NumTokenTypes), sym.And(tv >= 1000, tv <= 1001)))
		t := token.Type(tv)
		// oracle: the role table of a fresh parser plus earlier registrations
		has := false
		switch role {
		case 0:
			has = parser.ZZHasPrefix(fresh, t)
		case 1:
			has = parser.ZZHasInfix(fresh, t)
		case 2:
			has = sym.Or(t == token.INCREMENT, t == token.DECREMENT)
		}
		for _, r := range done {
			if r.role == role {
				has = sym.Or(has, r.t == t)
			}
		}
		n0, n1, n2 := parser.ZZOperatorCounts(pb)
		var err error
		switch role {
		case 0:
			err = pb.RegisterPrefixOperator(t, mkPrefix)
		case 1:
			err = pb.RegisterInfixOperator(t, 7, mkBinary)
		case 2:
			err = pb.RegisterPostfixOperator(t, mkPostfix)
		}
		sym.Observe("reg", role, tv, err != nil)
		sym.Assert((err != nil) == has, "refused-iff-token-already-has-the-role")
		m0, m1, m2 := parser.ZZOperatorCounts(pb)
		if err != nil {
			sym.Assert(m0 == n0 && m1 == n1 && m2 == n2, "refused-registration-leaves-builder-unchanged")
		} else {
			done = append(done, reg{role, t})
			sym.Assert(m0+m1+m2 == n0+n1+n2+1, "accepted-registration-recorded-once")
		}
	}
	sym.Cover("end")
}
