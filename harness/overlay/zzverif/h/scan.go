package h

// R2: an independent ECMAScript lexical scanner for the subset (it shares no
// code with xjs's lexer). It recognises every JavaScript punctuator by
// maximal munch so that text outside the subset is seen as such.

type RKind int

const (
	RIdent RKind = iota // identifier or keyword
	RNumber
	RString   // '...' or "..."
	RTemplate // `...`
	RPunct
	RBad // something the scanner cannot read (unterminated literal, stray byte)
	REOF
)

type RTok struct {
	Kind     RKind
	Text     string   // exact source slice
	Start    int      // byte offset
	Line     int      // 0-based line of the first byte
	Col      int      // 0-based column (bytes) of the first byte
	NL       bool     // a line terminator occurs between the previous token and this one
	Comments []string // `//` comments (text after the slashes, trailing spaces trimmed) before this token
	Blank    int      // number of blank lines immediately before this token's line / comments
}

func rIdentStart(c byte) bool {
	return (c >= 'a' && c <= 'z') || (c >= 'A' && c <= 'Z') || c == '_' || c == '$'
}
func rDigit(c byte) bool     { return c >= '0' && c <= '9' }
func rIdentPart(c byte) bool { return rIdentStart(c) || rDigit(c) }
func rHex(c byte) bool {
	return rDigit(c) || (c >= 'a' && c <= 'f') || (c >= 'A' && c <= 'F')
}

var rPuncts = []string{
	">>>=", "...", "===", "!==", "**=", "<<=", ">>=", ">>>", "&&=", "||=", "??=",
	"=>", "==", "!=", "<=", ">=", "&&", "||", "??", "?.", "++", "--", "+=", "-=", "*=", "/=", "%=", "&=", "|=", "^=", "<<", ">>", "**",
	"{", "}", "(", ")", "[", "]", ";", ",", "<", ">", "+", "-", "*", "/", "%", "&", "|", "^", "!", "~", "?", ":", "=", ".",
}

// RScan tokenises src completely.
func RScan(src string) []RTok {
	var out []RTok
	i, line, col := 0, 0, 0
	adv := func(n int) {
		for k := 0; k < n; k++ {
			if src[i] == '\n' {
				line++
				col = 0
			} else {
				col++
			}
			i++
		}
	}
	for {
		nl := false
		var comments []string
		blank := 0
		lineHasContent := true // the previous token's line
		// trivia
		for i < len(src) {
			c := src[i]
			if c == '\n' {
				if !lineHasContent {
					blank++
				}
				lineHasContent = false
				nl = true
				adv(1)
				continue
			}
			if c == ' ' || c == '\t' || c == '\r' {
				adv(1)
				continue
			}
			if c == '/' && i+1 < len(src) && src[i+1] == '/' {
				j := i + 2
				for j < len(src) && src[j] != '\n' {
					j++
				}
				e := j
				for e > i+2 && src[e-1] == ' ' {
					e--
				}
				comments = append(comments, src[i+2:e])
				lineHasContent = true
				adv(j - i)
				continue
			}
			break
		}
		t := RTok{Start: i, Line: line, Col: col, NL: nl, Comments: comments, Blank: blank}
		if i >= len(src) {
			t.Kind = REOF
			out = append(out, t)
			return out
		}
		c := src[i]
		j := i
		switch {
		case rIdentStart(c):
			for j < len(src) && rIdentPart(src[j]) {
				j++
			}
			t.Kind = RIdent
		case rDigit(c) || (c == '.' && i+1 < len(src) && rDigit(src[i+1])):
			j = rNumberEnd(src, i)
			t.Kind = RNumber
			if j < 0 {
				t.Kind = RBad
				j = i + 1
			}
		case c == '"' || c == '\'':
			j = rStringEnd(src, i)
			t.Kind = RString
			if j < 0 {
				t.Kind = RBad
				j = len(src)
			}
		case c == '`':
			j = i + 1
			for j < len(src) && src[j] != '`' {
				if src[j] == '\\' && j+1 < len(src) {
					j++
				}
				j++
			}
			if j >= len(src) {
				t.Kind = RBad
				j = len(src)
			} else {
				j++
				t.Kind = RTemplate
			}
		default:
			t.Kind = RBad
			j = i + 1
			for _, p := range rPuncts {
				if i+len(p) <= len(src) && src[i:i+len(p)] == p {
					t.Kind = RPunct
					j = i + len(p)
					break
				}
			}
		}
		t.Text = src[i:j]
		adv(j - i)
		out = append(out, t)
	}
}

// rStringEnd returns the index after the closing quote of the string literal
// starting at i, or -1 if it is unterminated / contains a raw line break.
func rStringEnd(src string, i int) int {
	q := src[i]
	j := i + 1
	for j < len(src) {
		c := src[j]
		if c == q {
			return j + 1
		}
		if c == '\n' || c == '\r' {
			return -1
		}
		if c == '\\' {
			if j+1 >= len(src) {
				return -1
			}
			// line continuation: backslash + line terminator (CRLF counts once)
			if src[j+1] == '\r' && j+2 < len(src) && src[j+2] == '\n' {
				j += 3
				continue
			}
			j += 2
			continue
		}
		j++
	}
	return -1
}

// rNumberEnd returns the end of the numeric literal at i, or -1 if the text
// is not a valid ECMAScript numeric literal (e.g. followed by an identifier
// start or digit).
func rNumberEnd(src string, i int) int {
	j := i
	n := len(src)
	if src[j] == '0' && j+1 < n && (src[j+1] == 'x' || src[j+1] == 'X' || src[j+1] == 'b' || src[j+1] == 'B' || src[j+1] == 'o' || src[j+1] == 'O') {
		base := src[j+1]
		j += 2
		k := j
		for j < n {
			c := src[j]
			ok := false
			switch base {
			case 'x', 'X':
				ok = rHex(c)
			case 'b', 'B':
				ok = c == '0' || c == '1'
			default:
				ok = c >= '0' && c <= '7'
			}
			if !ok {
				break
			}
			j++
		}
		if j == k {
			return -1
		}
	} else {
		for j < n && rDigit(src[j]) {
			j++
		}
		if j < n && src[j] == '.' {
			j++
			for j < n && rDigit(src[j]) {
				j++
			}
		}
		if j < n && (src[j] == 'e' || src[j] == 'E') {
			k := j + 1
			if k < n && (src[k] == '+' || src[k] == '-') {
				k++
			}
			if k >= n || !rDigit(src[k]) {
				return -1
			}
			for k < n && rDigit(src[k]) {
				k++
			}
			j = k
		}
	}
	if j < n && (rIdentPart(src[j])) {
		return -1
	}
	return j
}
