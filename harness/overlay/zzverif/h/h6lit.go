package h

import "github.com/xjslang/xjs/zzverif/sym"

// ZZH6Literals: pretty printing changes layout only - a string literal (any
// valid escapes, line continuations with LF, CR or CR LF, both quote styles)
// is emitted with the same text by the compact and by the pretty printer, so
// both outputs parse to the same tree including the literal (C06, text level:
// the real lexer, parser, printers and the clean-up pass run on the symbolic
// bytes).
func ZZH6Literals() {
	K := sym.Param("K", 3)
	n := sym.Choose("len", K+1)
	q := []byte{'"', '\''}[sym.Choose("quote", 2)]
	body := sym.String("s", n)
	for i := 0; i < n; i++ {
		sym.Assume(body[i] < 0x80)
	}
	lit := string([]byte{q}) + body + string([]byte{q})
	sym.Assume(rStringEnd(lit, 0) == len(lit))
	_, ok := RStringValue(body, false)
	sym.Assume(ok)
	src := literalSource(lit)
	compact, accepted := compileText(src, false)
	if !accepted {
		return // acceptance of valid literals is C07's assertion
	}
	pretty, _ := compileText(src, true)
	sym.Observe("lit", lit, compact, pretty)
	tc, tp := RScan(compact), RScan(pretty)
	shape := len(tc) == 5 && len(tp) == 5 && tc[2].Kind == RString && tp[2].Kind == RString
	sym.Assert(shape, "both-outputs-are-one-string-literal")
	if shape {
		sym.Assert(sym.EqStr(tc[2].Text, tp[2].Text), "pretty-and-compact-emit-the-same-literal-text")
	}
	sym.Cover("end")
}
