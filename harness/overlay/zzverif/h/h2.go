package h

import (
	"github.com/xjslang/xjs/lexer"
	"github.com/xjslang/xjs/parser"
	"github.com/xjslang/xjs/token"
	"github.com/xjslang/xjs/zzverif/sym"
)

// priorJob (parameter prelude=1): an earlier, plugin-configured parser was
// built and used in the same process - a postfix operator on a built-in binary
// operator token (multiplicative or relational), alone or with a prefix operator
// on `*` and an infix operator on `:`. What a default parser does afterwards must not depend
// on it (the property quantifies over programs, not over process histories).
func priorJob() {
	if sym.Param("prelude", 0) != 1 {
		return
	}
	pb := parser.NewBuilder(lexer.NewBuilder())
	op := []token.Type{token.MODULO, token.LT}[sym.Choose("preludeop", sym.Param("preludeops", 2))]
	pb.RegisterPostfixOperator(op, mkPostfix)
	if sym.Choose("preludecfg", sym.Param("preludecfgs", 2)) == 1 {
		// postfix only, or together with operators of the other two roles
		pb.RegisterPrefixOperator(token.MULTIPLY, mkPrefix)
		pb.RegisterInfixOperator(token.COLON, parser.SUM, mkBinary)
	}
	pb.Build("a").ParseProgram()
}

// GenProgram builds a generated program from the harness parameters.
func GenProgram() (*Gen, *Script) {
	g := NewGen(sym.Param("budget", 2))
	g.NoFunc = sym.Param("nofunc", 0) == 1
	s := g.Program(sym.Param("stmts", 2))
	return g, s
}

// ZZH2Parse: every generated program, in every layout ECMAScript permits,
// parses without error to exactly the generated tree (C02).
func ZZH2Parse() {
	priorJob()
	g, s := GenProgram()
	sym.Observe("script", s.Types(), s.Newlines())
	p := NewParser(s, false, false)
	prog, err := p.ParseProgram()
	d := DigestOf(prog, true)
	sym.Observe("tree", d.Out, g.Dig, len(p.Errors()))
	sym.Assert(err == nil && len(p.Errors()) == 0, "valid-program-accepted")
	sym.Assert(SameInts(d.Out, g.Dig), "tree-is-the-ecmascript-tree")
	sym.Cover("end")
}
