package h

import (
	"github.com/xjslang/xjs/zzverif/sym"
)

// GenProgram builds a generated program from the harness parameters.
func GenProgram() (*Gen, *Script) {
	g := NewGen(sym.Param("budget", 2))
	g.NoFunc = sym.Param("nofunc", 0) == 1
	s := g.Program(sym.Param("stmts", 2))
	return g, s
}

// ZZH2Parse: every generated program, in every layout ECMAScript permits,
// parses without error to exactly the generated tree (C02).
func ZZH2Parse() {
	g, s := GenProgram()
	sym.Observe("script", s.Types(), s.Newlines())
	p := NewParser(s, false, false)
	prog, err := p.ParseProgram()
	d := DigestOf(prog, true)
	sym.Observe("tree", d.Out, g.Dig, len(p.Errors()))
	sym.Assert(err == nil && len(p.Errors()) == 0, "valid-program-accepted")
	sym.Assert(SameInts(d.Out, g.Dig), "tree-is-the-ecmascript-tree")
	sym.Cover("end")
}
