package h

import (
	"github.com/xjslang/xjs/ast"
	"github.com/xjslang/xjs/compiler"
	"github.com/xjslang/xjs/lexer"
	"github.com/xjslang/xjs/parser"
	"github.com/xjslang/xjs/token"
	"github.com/xjslang/xjs/zzverif/sym"
)

func newCompiler(pretty, semi bool, indent int) *compiler.Compiler {
	c := compiler.New()
	if pretty {
		switch {
		case indent < 0:
			c.WithPrettyPrint(compiler.WithSemi(semi), compiler.WithTabs())
		default:
			c.WithPrettyPrint(compiler.WithSemi(semi), compiler.WithSpaces(indent))
		}
	}
	return c
}

// ZZH3RoundTrip: printing any tree over the core nodes (operands of any
// precedence) and parsing the text gives a tree of the same shape, and
// compiling the re-parsed tree reproduces the text byte for byte (C03).
func ZZH3RoundTrip() {
	priorJob()
	g := &TGen{Budget: sym.Param("budget", 2), Funcs: sym.Param("funcs", 1) == 1}
	prog := g.Program()
	pretty := sym.Bool("pretty")
	semi := sym.Or(sym.Bool("semi"), !pretty)
	c := newCompiler(pretty, semi, 2)
	code := c.Compile(prog).Code
	sym.Observe("code", code, pretty, semi)
	p := parser.NewBuilder(lexer.NewBuilder()).Build(code)
	prog2, err := p.ParseProgram()
	d := DigestOf(prog2, true)
	sym.Observe("tree", d.Out, g.Dig, len(p.Errors()))
	sym.Assert(err == nil, "printed-code-parses")
	sym.Assert(SameInts(d.Out, g.Dig), "printed-code-parses-back-to-the-same-tree")
	if err == nil && !d.Missing && !d.NilEntry {
		code2 := newCompiler(pretty, semi, 2).Compile(prog2).Code
		sym.Observe("again", code2)
		sym.Assert(sym.EqStr(code, code2), "compiling-the-reparsed-output-is-a-fixed-point")
	}
	sym.Cover("end")
}

// ZZH3pTables: the printer's precedence table agrees with the parser's
// binding-power table for every token type (one solver query over all 2^64
// values), and the fixed node precedences agree with the parser's levels.
func ZZH3pTables() {
	t := token.Type(sym.Int("t"))
	pp, ok := parser.ZZGlobalPrecedence(t)
	ap := ast.ZZOperatorPrecedence(t)
	sym.Observe("prec", int(t), pp, ok, ap)
	sym.Assert(sym.Implies(ok, ap == pp), "printer-precedence-equals-parser-binding-power")
	sym.Assert(sym.Implies(!ok, ap == ast.PrecedenceLowest), "printer-precedence-lowest-for-non-operators")
	a := &ast.Identifier{}
	sym.Assert((&ast.UnaryExpression{}).Precedence() == parser.UNARY, "unary-level")
	sym.Assert((&ast.PostfixExpression{}).Precedence() == parser.POSTFIX, "postfix-level")
	sym.Assert((&ast.CallExpression{}).Precedence() == parser.CALL, "call-level")
	sym.Assert((&ast.MemberExpression{}).Precedence() == parser.MEMBER, "member-level")
	sym.Assert((&ast.AssignmentExpression{}).Precedence() == parser.ASSIGNMENT, "assignment-level")
	sym.Assert((&ast.CompoundAssignmentExpression{}).Precedence() == parser.ASSIGNMENT, "compound-assignment-level")
	sym.Assert(a.Precedence() > parser.MEMBER && (&ast.GroupedExpression{}).Precedence() > parser.MEMBER, "atoms-and-groups-bind-tightest")
	sym.Assert(ast.PrecedenceLowest == parser.LOWEST, "lowest-level")
	sym.Cover("end")
}
