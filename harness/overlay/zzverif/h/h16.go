package h

import (
	"github.com/xjslang/xjs/ast"
	"github.com/xjslang/xjs/parser"
	"github.com/xjslang/xjs/zzverif/sym"
)

type ctxLog struct {
	tok    int // index of the current token (End.Column carries it)
	inFunc bool
	ctx    parser.ContextType
	kind   int // 0 statement interceptor, 1 expression interceptor
}

// ZZH16aNesting: whenever a statement or expression interceptor runs, the
// context queries equal the syntactic nesting of the current token (C16).
func ZZH16aNesting() {
	g, s := GenProgram()
	sym.Observe("script", s.Types())
	var log []ctxLog
	pb := parser.NewBuilder(s.LexerBuilder())
	pb.UseStatementInterceptor(func(p *parser.Parser, next func() ast.Statement) ast.Statement {
		log = append(log, ctxLog{p.CurrentToken.End.Column, p.IsInFunction(), p.CurrentContext(), 0})
		return next()
	})
	pb.UseExpressionInterceptor(func(p *parser.Parser, next func() ast.Expression) ast.Expression {
		log = append(log, ctxLog{p.CurrentToken.End.Column, p.IsInFunction(), p.CurrentContext(), 1})
		return next()
	})
	p := pb.Build("")
	_, err := p.ParseProgram()
	sym.Assert(err == nil, "valid-program-accepted")
	sym.Assert(len(log) > 0, "interceptors-ran")
	for _, e := range log {
		if e.tok < 0 || e.tok >= len(g.Toks) {
			sym.Assert(false, "interceptor-current-token-is-a-source-token")
			continue
		}
		sym.Observe("at", e.tok, e.kind, e.inFunc, int(e.ctx), g.InFunc[e.tok], g.Nest[e.tok])
		sym.Assert(e.inFunc == g.InFunc[e.tok], "is-in-function-matches-nesting")
		switch g.Nest[e.tok] {
		case NestGlobal:
			sym.Assert(e.ctx == parser.GlobalContext, "context-global-at-top-level")
		case NestBlock:
			sym.Assert(e.ctx == parser.BlockContext, "context-block-inside-block")
		case NestFunction:
			// directly inside a function body the innermost context is the body,
			// which is both a function and a block: either answer is accepted
			sym.Assert(e.ctx == parser.FunctionContext || e.ctx == parser.BlockContext, "context-function-inside-function-body")
		}
	}
	sym.Assert(p.CurrentContext() == parser.GlobalContext && !p.IsInFunction(), "context-global-after-parse")
	sym.Cover("end")
}
