package h

import (
	"github.com/xjslang/xjs/ast"
	"github.com/xjslang/xjs/parser"
	"github.com/xjslang/xjs/token"
	"github.com/xjslang/xjs/zzverif/sym"
)

type ctxLog struct {
	tok    int // index of the current token (End.Column carries it)
	inFunc bool
	ctx    parser.ContextType
	kind   int // 0 statement interceptor, 1 expression interceptor
}

// ZZH16aNesting: whenever a statement or expression interceptor runs, the
// context queries equal the syntactic nesting of the current token (C16).
func ZZH16aNesting() {
	g, s := GenProgram()
	sym.Observe("script", s.Types())
	var log []ctxLog
	pb := parser.NewBuilder(s.LexerBuilder())
	// plugin behaviours the queries must be robust against (parameters):
	// plugctx: a plugin tracks block statements with a context type of its own (PushContext/PopContext around next());
	// nilstmt: a plugin strips expression statements from the tree by returning nil after parsing them
	plugctx, nilstmt := sym.Param("plugctx", 0) == 1, sym.Param("nilstmt", 0) == 1
	// direct: the interceptors call the exported parse functions of the construct themselves instead of next()
	// (ParseFunctionStatement / ParseBlockStatement / ParseFunctionExpression + ParseRemainingExpression);
	// stmtdriven: the parser is driven statement by statement through ParseStatement, without ParseProgram
	direct, stmtdriven := sym.Param("direct", 0) == 1, sym.Param("stmtdriven", 0) == 1
	pb.UseStatementInterceptor(func(p *parser.Parser, next func() ast.Statement) ast.Statement {
		log = append(log, ctxLog{p.CurrentToken.End.Column, p.IsInFunction(), p.CurrentContext(), 0})
		if plugctx && p.CurrentToken.Type == token.LBRACE {
			p.PushContext(parser.ContextType(7))
			st := next()
			p.PopContext()
			return st
		}
		if direct && p.CurrentToken.Type == token.FUNCTION {
			return p.ParseFunctionStatement()
		}
		if direct && p.CurrentToken.Type == token.LBRACE {
			return p.ParseBlockStatement()
		}
		st := next()
		if _, isExpr := st.(*ast.ExpressionStatement); isExpr && nilstmt {
			return nil
		}
		return st
	})
	pb.UseExpressionInterceptor(func(p *parser.Parser, next func() ast.Expression) ast.Expression {
		log = append(log, ctxLog{p.CurrentToken.End.Column, p.IsInFunction(), p.CurrentContext(), 1})
		if direct && p.CurrentToken.Type == token.FUNCTION {
			left := p.ParseFunctionExpression()
			return p.ParseRemainingExpression(left)
		}
		return next()
	})
	p := pb.Build("")
	accepted := true
	if stmtdriven {
		for p.CurrentToken.Type != token.EOF {
			p.ParseStatement()
			sym.Assert(p.CurrentContext() == parser.GlobalContext && !p.IsInFunction(), "context-global-after-each-top-level-statement")
			p.NextToken()
		}
		accepted = len(p.Errors()) == 0
	} else {
		_, err := p.ParseProgram()
		accepted = err == nil
	}
	sym.Assert(accepted, "valid-program-accepted")
	sym.Assert(len(log) > 0, "interceptors-ran")
	for _, e := range log {
		if e.tok < 0 || e.tok >= len(g.Toks) {
			sym.Assert(false, "interceptor-current-token-is-a-source-token")
			continue
		}
		sym.Observe("at", e.tok, e.kind, e.inFunc, int(e.ctx), g.InFunc[e.tok], g.Nest[e.tok])
		sym.Assert(e.inFunc == g.InFunc[e.tok], "is-in-function-matches-nesting")
		switch g.Nest[e.tok] {
		case NestGlobal:
			sym.Assert(e.ctx == parser.GlobalContext, "context-global-at-top-level")
		case NestBlock:
			sym.Assert(e.ctx == parser.BlockContext, "context-block-inside-block")
		case NestFunction:
			// directly inside a function body the innermost context is the body,
			// which is both a function and a block: either answer is accepted
			sym.Assert(e.ctx == parser.FunctionContext || e.ctx == parser.BlockContext, "context-function-inside-function-body")
		}
	}
	sym.Assert(p.CurrentContext() == parser.GlobalContext && !p.IsInFunction(), "context-global-after-parse")
	sym.Cover("end")
}

// ZZH16cDepth: one parse from a context stack preset to depth D (the state
// inside D-1 enclosing constructs): the queries inside nested blocks and
// functions are right relative to the preset, and the stack is restored
// entry for entry afterwards - for small and large D (induction over depth).
func ZZH16cDepth() {
	depths := []int{1, 2, 3, 15, 16, 17, 31, 32, 33, 63, 64, 65, 200}
	D := depths[sym.Choose("depth", len(depths))]
	presetFunc := sym.Choose("presetfunction", 2) == 1 // is a function among the enclosing constructs?
	stack := []parser.ContextType{parser.GlobalContext}
	for i := 1; i < D; i++ {
		if presetFunc && i == 1 {
			stack = append(stack, parser.FunctionContext)
		} else {
			stack = append(stack, parser.BlockContext)
		}
	}
	inFuncBase := presetFunc && D > 1
	g, s := GenProgram()
	var log []ctxLog
	pb := parser.NewBuilder(s.LexerBuilder())
	pb.UseStatementInterceptor(func(p *parser.Parser, next func() ast.Statement) ast.Statement {
		log = append(log, ctxLog{p.CurrentToken.End.Column, p.IsInFunction(), p.CurrentContext(), 0})
		return next()
	})
	p := pb.Build("")
	parser.ZZSetContextStack(p, stack)
	_, err := p.ParseProgram()
	sym.Observe("run", s.Types(), D, presetFunc)
	sym.Assert(err == nil, "valid-program-accepted")
	for _, e := range log {
		if e.tok < 0 || e.tok >= len(g.Toks) {
			continue
		}
		sym.Assert(e.inFunc == (inFuncBase || g.InFunc[e.tok]), "is-in-function-relative-to-preset-depth")
		switch g.Nest[e.tok] {
		case NestGlobal:
			sym.Assert(e.ctx == stack[D-1], "context-is-the-preset-top-outside-nested-constructs")
		case NestBlock:
			sym.Assert(e.ctx == parser.BlockContext, "context-block-inside-block")
		case NestFunction:
			sym.Assert(e.ctx == parser.FunctionContext || e.ctx == parser.BlockContext, "context-function-inside-function-body")
		}
	}
	sym.Assert(parser.ZZContextDepth(p) == D, "context-stack-depth-restored")
	if parser.ZZContextDepth(p) == D {
		for i := 0; i < D; i++ {
			sym.Assert(parser.ZZContextAt(p, i) == stack[i], "context-stack-restored-entry-for-entry")
		}
	}
	sym.Cover("end")
}

// ZZH16dInnerParser: a second parser that lives inside an interceptor call of
// the first one (a plugin parsing a snippet) does not disturb the outer
// parser's context answers.
func ZZH16dInnerParser() {
	g, s := GenProgram()
	sym.Observe("script", s.Types())
	inner := [][]token.Type{
		{token.LBRACE, token.LBRACE, token.IDENT, token.RBRACE, token.RBRACE},
		{token.FUNCTION, token.IDENT, token.LPAREN, token.RPAREN, token.LBRACE, token.IDENT, token.RBRACE},
		{token.LBRACE, token.IDENT},
	}[sym.Choose("inner", 3)]
	var log []ctxLog
	calls := 0
	at := sym.Choose("when", 3) // which interceptor call starts the inner parse
	pb := parser.NewBuilder(s.LexerBuilder())
	pb.UseStatementInterceptor(func(p *parser.Parser, next func() ast.Statement) ast.Statement {
		if calls == at {
			is := &Script{EOF: symTok(token.EOF, "")}
			for _, t := range inner {
				is.Toks = append(is.Toks, symTok(t, Lexeme(t)))
			}
			ip := parser.NewBuilder(is.LexerBuilder()).WithTolerantMode(true).Build("")
			ip.ParseProgram()
		}
		calls++
		log = append(log, ctxLog{p.CurrentToken.End.Column, p.IsInFunction(), p.CurrentContext(), 0})
		return next()
	})
	p := pb.Build("")
	_, err := p.ParseProgram()
	sym.Assert(err == nil, "valid-program-accepted")
	for _, e := range log {
		if e.tok < 0 || e.tok >= len(g.Toks) {
			continue
		}
		sym.Assert(e.inFunc == g.InFunc[e.tok], "is-in-function-matches-nesting")
		switch g.Nest[e.tok] {
		case NestGlobal:
			sym.Assert(e.ctx == parser.GlobalContext, "context-global-at-top-level")
		case NestBlock:
			sym.Assert(e.ctx == parser.BlockContext, "context-block-inside-block")
		case NestFunction:
			sym.Assert(e.ctx == parser.FunctionContext || e.ctx == parser.BlockContext, "context-function-inside-function-body")
		}
	}
	sym.Assert(p.CurrentContext() == parser.GlobalContext && !p.IsInFunction(), "context-global-after-parse")
	sym.Cover("end")
}
