package h

import (
	"github.com/xjslang/xjs/token"
	"github.com/xjslang/xjs/zzverif/sym"
)

// continuesText: a token that, at the start of a line, continues the previous
// line's expression in ECMAScript (no semicolon is inserted before it).
func continuesText(t RTok) bool {
	if t.Kind == RTemplate {
		return true
	}
	if t.Kind != RPunct {
		return false
	}
	switch t.Text {
	case "(", "[", "+", "-", "*", "/", "%", "<", ">", "<=", ">=", "==", "!=", "===", "!==", "&&", "||", "??",
		"=", "+=", "-=", "*=", "/=", "%=", ".", ",", "?", ":", "&", "|", "^", "<<", ">>", ">>>", "**", "=>", "?.", "in", "instanceof":
		return true
	}
	return false
}

// ZZH1Behaviour: sufficient syntactic condition for "the output behaves like
// the source" (C01): read by an independent ECMAScript scanner, the output is
// the same token sequence as the source (string quote style and statement
// terminators aside), every statement boundary of the source is still a
// statement boundary under the ECMAScript rules for automatic semicolon
// insertion, and no line break was introduced at a restricted production.
// Equal token sequences with equal statement boundaries are the same program.
func ZZH1Behaviour() {
	priorJob()
	g, s, prog := GenText(sym.Param("trivia", 0), 1, false)
	cfg := sym.Choose("config", 4)
	pretty := cfg > 0
	semi := cfg != 2
	indent := 2
	if cfg == 3 {
		indent = -1
	}
	code := newCompiler(pretty, semi, indent).Compile(prog).Code
	sym.Observe("code", code, cfg)
	withMap := newCompiler(pretty, semi, indent).WithSourceMap().Compile(prog).Code
	sym.Assert(sym.EqStr(code, withMap), "source-map-does-not-change-the-code")

	all := RScan(code)
	for _, t := range all {
		sym.Assert(t.Kind != RBad, "output-is-lexically-valid-javascript")
	}
	// output tokens without `;`, remembering whether a `;` precedes each
	var out []RTok
	var semiBefore []bool
	pending := false
	for _, t := range all {
		if t.Kind == REOF {
			break
		}
		if t.Kind == RPunct && t.Text == ";" {
			pending = true
			continue
		}
		out = append(out, t)
		semiBefore = append(semiBefore, pending)
		pending = false
	}
	src := sourceNoSemis(s)
	if len(out) != len(src) {
		// the printer protects a decimal integer that is the object of a dot access with parentheses (`1 .p` is
		// written `(1).p`): the same program. Such a pair of parentheses, where the source has none, is skipped.
		var o2 []RTok
		var s2 []bool
		j := 0
		for k := 0; k < len(out); k++ {
			srcParen := j < len(src) && s.Toks[src[j]].Type == token.LPAREN
			if !srcParen && out[k].Text == "(" && k+3 < len(out) && out[k+1].Kind == RNumber && out[k+2].Text == ")" && out[k+3].Text == "." {
				t := out[k+1]
				t.NL = t.NL || out[k].NL
				o2 = append(o2, t)
				s2 = append(s2, semiBefore[k])
				k += 2
				j++
				continue
			}
			o2 = append(o2, out[k])
			s2 = append(s2, semiBefore[k])
			j++
		}
		out, semiBefore = o2, s2
	}
	sym.Assert(len(out) == len(src), "output-token-sequence-equals-source")
	if len(out) != len(src) {
		return
	}
	pos := map[int]int{} // source token index -> position in the `;`-free sequences
	for j, i := range src {
		pos[i] = j
		sym.Assert(sameLexeme(s.Toks[i], out[j]), "output-token-sequence-equals-source")
	}
	// statement boundaries survive
	for _, b := range g.Boundaries {
		i := b
		for i < len(s.Toks) && s.Toks[i].Type == token.SEMICOLON {
			i++
		}
		if i >= len(s.Toks) {
			continue
		}
		j := pos[i]
		ok := semiBefore[j] || out[j].Text == "}" || (out[j].NL && !continuesText(out[j]))
		sym.Assert(ok, "statement-boundary-kept-under-ecmascript-asi")
	}
	for _, e := range g.ElseAfterExpr {
		i := e
		for i < len(s.Toks) && s.Toks[i].Type == token.SEMICOLON {
			i++
		}
		if i >= len(s.Toks) {
			continue
		}
		j := pos[i]
		sym.Assert(semiBefore[j] || out[j].NL, "else-after-expression-has-separator")
	}
	// restricted productions: no line break before these tokens
	for _, i := range g.NoBreak {
		if s.Toks[i].Type == token.SEMICOLON {
			continue
		}
		sym.Assert(!out[pos[i]].NL, "no-line-break-at-restricted-production")
	}
	sym.Cover("end")
}
