package h

import (
	"github.com/xjslang/xjs/lexer"
	"github.com/xjslang/xjs/parser"
	"github.com/xjslang/xjs/token"
	"github.com/xjslang/xjs/zzverif/sym"
)

func isOpen(t token.Type) bool {
	return t == token.LPAREN || t == token.LBRACKET || t == token.LBRACE
}
func isClose(t token.Type) bool {
	return t == token.RPAREN || t == token.RBRACKET || t == token.RBRACE
}

// firstErrorNotBefore: strict parsing reports an error and the first one is
// located no earlier than token `intact` (positions are concrete: column =
// 2*index on line 0).
func firstErrorNotBefore(s *Script, intact int, label string) {
	p := NewParser(s, false, sym.Param("smart", 0) == 1)
	_, err := p.ParseProgram()
	errs := p.Errors()
	sym.Observe("errors", len(errs))
	sym.Assert(err != nil && len(errs) > 0, label+"-rejected")
	if len(errs) > 0 && intact >= 0 {
		e := errs[0].Range.Start
		sym.Observe("first", e.Line, e.Column, intact)
		sym.Assert(e.Column >= 2*intact, label+"-first-error-not-before-last-intact-token")
	}
}

// ZZH12Truncate: a valid program cut inside an open bracket or block is
// rejected by strict mode, first error at or after the last kept token (C12).
// Unbalanced delimiters are never valid JavaScript, so no reference parser is
// needed for this corruption family.
func ZZH12Truncate() {
	g := NewGen(sym.Param("budget", 2))
	g.ConcretePos = true
	g.Smart = sym.Param("smart", 0) == 1
	s := g.Program(sym.Param("stmts", 2))
	n := len(s.Toks)
	cut := 1 + sym.Choose("cut", n) // keep cut tokens, 1..n
	depth := 0
	for i := 0; i < cut; i++ {
		if isOpen(s.Toks[i].Type) {
			depth++
		} else if isClose(s.Toks[i].Type) {
			depth--
		}
	}
	sym.Assume(depth > 0)
	s.Toks = s.Toks[:cut]
	s.EOF.Start = token.Position{Line: 0, Column: 2 * cut}
	s.EOF.End = s.EOF.Start
	sym.Observe("script", s.Types(), s.Newlines(), cut)
	firstErrorNotBefore(s, cut-1, "truncated")
	sym.Cover("end")
}

// ZZH12DeleteDelimiter: deleting one bracket, paren or brace of a valid
// program leaves the delimiters unbalanced, which no JavaScript parser
// accepts: strict mode must report it, not before the last intact token.
func ZZH12DeleteDelimiter() {
	g := NewGen(sym.Param("budget", 2))
	g.ConcretePos = true
	g.Smart = sym.Param("smart", 0) == 1
	s := g.Program(sym.Param("stmts", 2))
	n := len(s.Toks)
	d := sym.Choose("delete", n)
	t := s.Toks[d].Type
	sym.Assume(isOpen(t) || isClose(t))
	var toks []token.Token
	toks = append(toks, s.Toks[:d]...)
	toks = append(toks, s.Toks[d+1:]...)
	s.Toks = toks
	sym.Observe("script", s.Types(), s.Newlines(), d)
	// positions keep their original values, so token d-1 is the last intact one
	firstErrorNotBefore(s, d-1, "delimiter-deleted")
	sym.Cover("end")
}

// ZZH12Fuse: two statements fused on one line without separator, where the
// first ends and the second begins with an operand (never valid JavaScript).
func ZZH12Fuse() {
	g := NewGen(sym.Param("budget", 2))
	g.ConcretePos = true
	g.Smart = sym.Param("smart", 0) == 1
	g.FuseSeps = true
	s := g.Program(sym.Param("stmts", 2))
	sym.Assume(len(g.Fused) > 0)
	first := g.Fused[0]
	for _, f := range g.Fused {
		if f < first {
			first = f
		}
	}
	sym.Observe("script", s.Types(), s.Newlines(), g.Fused)
	firstErrorNotBefore(s, first-1, "fused")
	sym.Cover("end")
}

// ZZH12Literal: a program truncated inside a string or backtick literal is
// rejected by strict mode, and not before the literal (C12, text level: the
// real lexer reads the truncated text).
func ZZH12Literal() {
	K := sym.Param("K", 3)
	n := sym.Choose("len", K+1)
	q := []byte{'"', '\'', '`'}[sym.Choose("quote", 3)]
	body := sym.String("s", n)
	for i := 0; i < n; i++ {
		sym.Assume(body[i] < 0x80)
		if q != '`' {
			// a raw line break inside a quoted string is not the truncation of
			// any valid program (no completion makes it valid)
			sym.Assume(sym.And(body[i] != '\n', body[i] != '\r'))
		}
	}
	prefix := []string{"x=", ""}[sym.Choose("prefix", 2)] // also a literal that opens the program
	src := prefix + string([]byte{q}) + body
	// the reference scanner must see an unterminated literal (no closing
	// delimiter before the end of the text)
	toks := RScan(src)
	sym.Assume(len(toks) >= 2 && toks[len(toks)-2].Kind == RBad && toks[len(toks)-2].Start == len(prefix))
	p := parser.NewBuilder(lexer.NewBuilder()).Build(src)
	_, err := p.ParseProgram()
	errs := p.Errors()
	sym.Observe("src", src, len(errs))
	sym.Assert(err != nil && len(errs) > 0, "truncated-literal-rejected")
	if len(errs) > 0 {
		e := errs[0].Range.Start
		sym.Assert(e.Line > 0 || e.Column >= len(prefix), "truncated-literal-first-error-not-before-the-literal")
	}
	sym.Cover("end")
}

// ZZH12Number: a program truncated inside a numeric literal (`0x`, `1e`, `0b`)
// or whose number runs into an identifier character (`1a`, `0b2`, `0x1g`) is
// not valid JavaScript - the character after a numeric literal must not be an
// identifier start or a digit - and must be rejected by strict mode (C12, text
// level: the real lexer and parser read the text).
func ZZH12Number() {
	K := sym.Param("K", 3)
	n := 1 + sym.Choose("len", K)
	lit := sym.String("d", n)
	sym.Assume(rDigitB(lit[0]))
	allDigits := true
	for i := 0; i < n; i++ {
		c := lit[i]
		alnum := sym.Or(rDigitB(c), sym.Or(sym.And(c >= 'a', c <= 'z'), sym.And(c >= 'A', c <= 'Z')))
		sym.Assume(alnum)
		allDigits = sym.And(allDigits, rDigitB(c))
	}
	// not one complete literal: neither a literal of the reference grammar nor a legacy all-digit form;
	// the BigInt suffix is outside the subset
	sym.Assume(sym.Not(allDigits))
	sym.Assume(rNumberEnd(lit, 0) != n)
	sym.Assume(lit[n-1] != 'n')
	src := "x=" + lit
	p := parser.NewBuilder(lexer.NewBuilder()).Build(src)
	_, err := p.ParseProgram()
	errs := p.Errors()
	sym.Observe("src", src, len(errs))
	sym.Assert(err != nil && len(errs) > 0, "malformed-number-rejected")
	if len(errs) > 0 {
		e := errs[0].Range.Start
		sym.Assert(e.Line > 0 || e.Column >= 2, "malformed-number-first-error-not-before-the-literal")
	}
	sym.Cover("end")
}

// cannotEnd: a token type with which no ECMAScript program of the subset can
// end (an operand, a body or a closing delimiter must follow).
func cannotEnd(t token.Type) bool {
	switch t {
	case token.ASSIGN, token.PLUS_ASSIGN, token.MINUS_ASSIGN, token.PLUS, token.MINUS, token.MULTIPLY, token.DIVIDE, token.MODULO,
		token.EQ, token.NOT_EQ, token.LT, token.GT, token.LTE, token.GTE, token.AND, token.OR, token.NOT,
		token.COMMA, token.COLON, token.DOT, token.LPAREN, token.LBRACKET, token.LBRACE,
		token.FUNCTION, token.LET, token.IF, token.ELSE, token.WHILE, token.FOR:
		return true
	}
	return false
}

// ZZH12TruncateIncomplete: a valid program cut right after a token that
// cannot end a program (an operator, an opening delimiter, a keyword that
// needs a continuation, or the ) of an if/while/for header) is rejected by
// strict mode, first error at or after the last kept token.
func ZZH12TruncateIncomplete() {
	g := NewGen(sym.Param("budget", 2))
	g.ConcretePos = true
	g.Smart = sym.Param("smart", 0) == 1
	s := g.Program(sym.Param("stmts", 2))
	n := len(s.Toks)
	cut := 1 + sym.Choose("cut", n)
	last := s.Toks[cut-1].Type
	header := false
	for _, h := range g.HeaderEnds {
		if h == cut-1 {
			header = true
		}
	}
	// a keyword directly after a dot is a property name (`a.function`): it can end a program
	name := cut >= 2 && s.Toks[cut-2].Type == token.DOT
	sym.Assume((cannotEnd(last) && !name) || header)
	s.Toks = s.Toks[:cut]
	s.EOF.Start = token.Position{Line: 0, Column: 2 * cut}
	s.EOF.End = s.EOF.Start
	sym.Observe("script", s.Types(), s.Newlines(), cut)
	firstErrorNotBefore(s, cut-1, "incomplete")
	sym.Cover("end")
}

// ZZH12DeleteAny: deleting any single token of a valid program, whenever the
// result is not valid JavaScript any more (decided by the permissive
// reference recogniser R3: what it rejects, every ECMAScript parser rejects),
// makes strict mode report an error, the first one not before the last intact
// token.
func ZZH12DeleteAny() {
	g := NewGen(sym.Param("budget", 2))
	g.ConcretePos = true
	g.ConcreteOps = true
	g.Smart = sym.Param("smart", 0) == 1
	s := g.Program(sym.Param("stmts", 2))
	sym.Assert(RAccepts(s.Toks), "reference-recogniser-accepts-the-valid-program")
	n := len(s.Toks)
	d := sym.Choose("delete", n)
	var toks []token.Token
	toks = append(toks, s.Toks[:d]...)
	toks = append(toks, s.Toks[d+1:]...)
	if d < len(s.Toks)-1 && s.Toks[d].AfterNewline {
		// the line break in front of the deleted token stays in the text
		toks[d].AfterNewline = true
	}
	sym.Assume(!RAccepts(toks))
	s.Toks = toks
	sym.Observe("script", s.Types(), s.Newlines(), d)
	firstErrorNotBefore(s, d-1, "token-deleted")
	sym.Cover("end")
}
