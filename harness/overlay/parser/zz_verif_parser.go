package parser

import "github.com/xjslang/xjs/token"

// Accessors for unexported parser state used by the harnesses.

func ZZContextDepth(p *Parser) int { return len(p.contextStack) }

func ZZHasPrefix(p *Parser, t token.Type) bool {
	_, ok := p.prefixParseFns[t]
	return ok
}

func ZZHasInfix(p *Parser, t token.Type) bool {
	_, ok := p.infixParseFns[t]
	return ok
}

func ZZOperatorCounts(pb *Builder) (int, int, int) {
	return len(pb.prefixOperators), len(pb.infixOperators), len(pb.postfixOperators)
}

func ZZPrecedenceOf(p *Parser, t token.Type) (int, bool) {
	v, ok := p.precedences[t]
	return v, ok
}

func ZZGlobalPrecedence(t token.Type) (int, bool) {
	v, ok := precedences[t]
	return v, ok
}

// ZZSetContextStack presets the context stack (inductive step from an
// arbitrary nesting depth).
func ZZSetContextStack(p *Parser, stack []ContextType) {
	p.contextStack = append([]ContextType(nil), stack...)
}

func ZZContextAt(p *Parser, i int) ContextType { return p.contextStack[i] }
