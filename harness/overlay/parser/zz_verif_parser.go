package parser

// Accessors for unexported parser state used by the harnesses.

func ZZContextDepth(p *Parser) int { return len(p.contextStack) }
