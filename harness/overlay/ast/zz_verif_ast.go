package ast

import "github.com/xjslang/xjs/token"

// ZZOperatorPrecedence exposes the printer-side precedence table.
func ZZOperatorPrecedence(t token.Type) int { return operatorPrecedence(t) }
